#!/bin/sh
# MANIFEST.setup_cmd: build the framework offline and warm the build cache.
cd "$(dirname "$0")" || exit 2
export GOFLAGS=-mod=mod GOPROXY=off GOSUMDB=off GOTOOLCHAIN=local GOWORK=off
export GOCACHE="$(pwd)/.cache/gocache"
export VERIF_ROOT="$(pwd)"
mkdir -p .cache evidence
go build -o .cache/vcheck ./cmd/vcheck || exit 2
.cache/vcheck prebuild || exit 2
echo setup done
