package input

import (
	"fmt"

	"github.com/gdamore/tcell/v2"
)

// MouseState is the reference's memory of the report history: whether a button press is
// outstanding (needed only for the "motion with no button held carries no buttons" clause).
type MouseState struct {
	Down bool    // some button is held
	Held [3]bool // which of left / middle / right (xterm numbering 0 1 2) are held
}

func (st *MouseState) sync() { st.Down = st.Held[0] || st.Held[1] || st.Held[2] }

// MouseExpect is the reference decoding of one report. ButtonsAny is set where the
// property statement does not fix the button mask (wheel left/right, buttons 8-11).
type MouseExpect struct {
	X, Y       int
	Buttons    tcell.ButtonMask
	ButtonsAny bool
	Mod        tcell.ModMask
}

func (m MouseExpect) String() string {
	if m.ButtonsAny {
		return fmt.Sprintf("pos=(%d,%d) buttons=<unspecified> mod=%d", m.X, m.Y, m.Mod)
	}
	return fmt.Sprintf("pos=(%d,%d) buttons=%#x mod=%d", m.X, m.Y, int(m.Buttons), m.Mod)
}

func clip(v, n int) int {
	if v > n-1 {
		v = n - 1
	}
	if v < 0 {
		v = 0
	}
	return v
}

// Decode interprets an xterm button code (the SGR Pb parameter, or the X11 Cb byte minus
// 32) with 1-based coordinates. release is the SGR 'm' final. Per ctlseqs: low two bits
// 0=left 1=middle 2=right 3=none; +4 Shift, +8 Meta, +16 Ctrl, +32 motion, +64 wheel
// (64 up, 65 down), +128 extra buttons. tcell numbering: left Button1, right Button2,
// middle Button3.
func (st *MouseState) Decode(code, col, row int, release bool, w, h int) MouseExpect {
	e := MouseExpect{X: clip(col-1, w), Y: clip(row-1, h)}
	if code&4 != 0 {
		e.Mod |= tcell.ModShift
	}
	if code&8 != 0 {
		e.Mod |= tcell.ModAlt
	}
	if code&16 != 0 {
		e.Mod |= tcell.ModCtrl
	}
	motion := code&32 != 0
	wheel := code&64 != 0
	low := code & 3
	if code&128 != 0 {
		e.ButtonsAny = true
	}
	btn := func() tcell.ButtonMask {
		switch low {
		case 0:
			return tcell.Button1
		case 1:
			return tcell.Button3
		case 2:
			return tcell.Button2
		}
		return tcell.ButtonNone
	}
	switch {
	case release:
		e.Buttons = tcell.ButtonNone
		if wheel {
			// a release final on a wheel code: no button went up
		} else if !e.ButtonsAny {
			// the SGR release names the button that went up; the others stay held
			if low < 3 {
				st.Held[low] = false
			} else {
				st.Held = [3]bool{}
			}
			st.sync()
		}
	case wheel:
		switch low {
		case 0:
			e.Buttons = tcell.WheelUp
		case 1:
			e.Buttons = tcell.WheelDown
		default:
			e.ButtonsAny = true // wheel left/right: not fixed by the statement
		}
		if motion {
			e.ButtonsAny = true // motion+wheel is not something xterm sends
		}
	case motion:
		switch {
		case low == 3 || !st.Down:
			e.Buttons = tcell.ButtonNone // motion with no button held
		case st.Held[low]:
			e.Buttons = btn() // motion while a button is held keeps that button
		default:
			e.ButtonsAny = true // claims a button that is not the one held: not fixed
		}
	default:
		e.Buttons = btn()
		if low == 3 {
			// X11-style release (no button): which one is not said
			if !e.ButtonsAny {
				st.Held = [3]bool{}
				st.sync()
			}
		} else if !e.ButtonsAny {
			st.Held[low] = true
			st.sync()
		}
	}
	return e
}
