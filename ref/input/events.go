package input

import (
	"fmt"

	"github.com/gdamore/tcell/v2"
)

// Ev is a comparable rendering of a tcell event (everything but the timestamp).
type Ev struct {
	Kind    string // key mouse paste focus clipboard resize error other
	Key     tcell.Key
	Rune    rune
	Mod     tcell.ModMask
	X, Y    int
	Buttons tcell.ButtonMask
	Flag    bool   // paste start / focus in
	Data    string // clipboard payload
}

func (e Ev) String() string {
	switch e.Kind {
	case "key":
		if e.Key == tcell.KeyRune {
			return fmt.Sprintf("Rune(%q,mod=%d)", e.Rune, e.Mod)
		}
		n, ok := tcell.KeyNames[e.Key]
		if !ok {
			n = fmt.Sprintf("Key%d", e.Key)
		}
		return fmt.Sprintf("Key(%s,mod=%d)", n, e.Mod)
	case "mouse":
		return fmt.Sprintf("Mouse(%d,%d,btn=%#x,mod=%d)", e.X, e.Y, int(e.Buttons), e.Mod)
	case "paste":
		return fmt.Sprintf("Paste(start=%v)", e.Flag)
	case "focus":
		return fmt.Sprintf("Focus(%v)", e.Flag)
	case "clipboard":
		return fmt.Sprintf("Clipboard(%q)", e.Data)
	}
	return e.Kind
}

func Conv(ev tcell.Event) Ev {
	switch e := ev.(type) {
	case nil:
		return Ev{Kind: "nil"}
	case *tcell.EventKey:
		return Ev{Kind: "key", Key: e.Key(), Rune: e.Rune(), Mod: e.Modifiers()}
	case *tcell.EventMouse:
		x, y := e.Position()
		return Ev{Kind: "mouse", X: x, Y: y, Buttons: e.Buttons(), Mod: e.Modifiers()}
	case *tcell.EventPaste:
		return Ev{Kind: "paste", Flag: e.Start()}
	case *tcell.EventFocus:
		return Ev{Kind: "focus", Flag: e.Focused}
	case *tcell.EventClipboard:
		return Ev{Kind: "clipboard", Data: string(e.Data())}
	case *tcell.EventResize:
		w, h := e.Size()
		return Ev{Kind: "resize", X: w, Y: h}
	case *tcell.EventError:
		return Ev{Kind: "error", Data: e.Error()}
	case *tcell.EventInterrupt:
		return Ev{Kind: "interrupt", Data: fmt.Sprint(e.Data())}
	}
	return Ev{Kind: fmt.Sprintf("%T", ev)}
}

func ConvAll(evs []tcell.Event) []Ev {
	out := make([]Ev, len(evs))
	for i, e := range evs {
		out[i] = Conv(e)
	}
	return out
}

func EqEvs(a, b []Ev) bool {
	if len(a) != len(b) {
		return false
	}
	for i := range a {
		if a[i] != b[i] {
			return false
		}
	}
	return true
}
