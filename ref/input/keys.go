// Package input holds independent reference decoders for terminal input: which key a
// terminal description assigns to a byte sequence, xterm's modifier encoding, the xterm
// mouse protocols. Written from terminfo(5) and xterm's ctlseqs, not from tcell's parser.
package input

import (
	"fmt"
	"reflect"
	"regexp"
	"sort"
	"strconv"
	"strings"

	"github.com/gdamore/tcell/v2"
	"github.com/gdamore/tcell/v2/terminfo"
)

// KM is a key with modifiers.
type KM struct {
	Key tcell.Key
	Mod tcell.ModMask
}

func (k KM) String() string { return fmt.Sprintf("(%s,mod=%d)", tcell.KeyNames[k.Key], k.Mod) }

var baseKeys = map[string]tcell.Key{
	"Backspace": tcell.KeyBackspace, "Insert": tcell.KeyInsert, "Delete": tcell.KeyDelete, "Home": tcell.KeyHome,
	"End": tcell.KeyEnd, "Help": tcell.KeyHelp, "PgUp": tcell.KeyPgUp, "PgDn": tcell.KeyPgDn, "Up": tcell.KeyUp,
	"Down": tcell.KeyDown, "Left": tcell.KeyLeft, "Right": tcell.KeyRight, "Backtab": tcell.KeyBacktab,
	"Exit": tcell.KeyExit, "Clear": tcell.KeyClear, "Print": tcell.KeyPrint, "Cancel": tcell.KeyCancel,
}

var fieldRe = regexp.MustCompile(`^Key((?:Shf|Ctrl|Meta|Alt)*)([A-Z][A-Za-z]*?|F[0-9]+)$`)

// FieldKey maps a Terminfo field name such as KeyCtrlShfLeft or KeyF17 to the key and
// modifiers that name denotes. ok=false for fields that are not key capabilities.
func FieldKey(name string) (KM, bool) {
	m := fieldRe.FindStringSubmatch(name)
	if m == nil {
		return KM{}, false
	}
	var mod tcell.ModMask
	mods := m[1]
	for mods != "" {
		switch {
		case strings.HasPrefix(mods, "Shf"):
			mod |= tcell.ModShift
			mods = mods[3:]
		case strings.HasPrefix(mods, "Ctrl"):
			mod |= tcell.ModCtrl
			mods = mods[4:]
		case strings.HasPrefix(mods, "Meta"):
			mod |= tcell.ModMeta
			mods = mods[4:]
		case strings.HasPrefix(mods, "Alt"):
			mod |= tcell.ModAlt
			mods = mods[3:]
		}
	}
	if strings.HasPrefix(m[2], "F") {
		if n, err := strconv.Atoi(m[2][1:]); err == nil && n >= 1 && n <= 64 {
			return KM{tcell.KeyF1 + tcell.Key(n-1), mod}, true
		}
	}
	if k, ok := baseKeys[m[2]]; ok {
		return KM{k, mod}, true
	}
	return KM{}, false
}

// FnAlias gives the "base key plus modifiers" reading of the high function keys:
// F13-24 Shift, F25-36 Ctrl, F37-48 Ctrl+Shift, F49-60 Alt, F61-63 Alt+Shift (+F1..).
func FnAlias(k tcell.Key) (KM, bool) {
	n := int(k-tcell.KeyF1) + 1
	switch {
	case n >= 13 && n <= 24:
		return KM{tcell.KeyF1 + tcell.Key(n-13), tcell.ModShift}, true
	case n >= 25 && n <= 36:
		return KM{tcell.KeyF1 + tcell.Key(n-25), tcell.ModCtrl}, true
	case n >= 37 && n <= 48:
		return KM{tcell.KeyF1 + tcell.Key(n-37), tcell.ModCtrl | tcell.ModShift}, true
	case n >= 49 && n <= 60:
		return KM{tcell.KeyF1 + tcell.Key(n-49), tcell.ModAlt}, true
	case n >= 61 && n <= 63:
		return KM{tcell.KeyF1 + tcell.Key(n-61), tcell.ModAlt | tcell.ModShift}, true
	}
	return KM{}, false
}

// KeyField is one populated key capability of an entry.
type KeyField struct {
	Field string
	Seq   string
	KM    KM
}

// KeyFields lists every non-empty Key* string field of ti (by reflection, so that fields
// added later are picked up), in declaration order.
func KeyFields(ti *terminfo.Terminfo) []KeyField {
	var out []KeyField
	v := reflect.ValueOf(ti).Elem()
	t := v.Type()
	for i := 0; i < t.NumField(); i++ {
		f := t.Field(i)
		if f.Type.Kind() != reflect.String {
			continue
		}
		km, ok := FieldKey(f.Name)
		if !ok {
			continue
		}
		s := v.Field(i).String()
		if s == "" {
			continue
		}
		out = append(out, KeyField{f.Name, s, km})
	}
	return out
}

// Assigned returns, for every byte sequence the description defines, the set of
// (key, modifiers) readings the description gives it (several fields may share a sequence;
// the function-key alias reading is included).
func Assigned(ti *terminfo.Terminfo) map[string][]KM {
	out := map[string][]KM{}
	add := func(s string, km KM) {
		for _, x := range out[s] {
			if x == km {
				return
			}
		}
		out[s] = append(out[s], km)
	}
	for _, f := range KeyFields(ti) {
		add(f.Seq, f.KM)
		if f.KM.Mod == 0 {
			if a, ok := FnAlias(f.KM.Key); ok {
				add(f.Seq, a)
			}
		}
	}
	return out
}

// XtermMods decodes xterm's modifier parameter (2..16): param-1 is a bit set of
// Shift(1) Alt(2) Ctrl(4) Meta(8).
func XtermMods(param int) tcell.ModMask {
	b := param - 1
	var m tcell.ModMask
	if b&1 != 0 {
		m |= tcell.ModShift
	}
	if b&2 != 0 {
		m |= tcell.ModAlt
	}
	if b&4 != 0 {
		m |= tcell.ModCtrl
	}
	if b&8 != 0 {
		m |= tcell.ModMeta
	}
	return m
}

var (
	reTilde = regexp.MustCompile(`^\x1b\[([0-9]+)~$`)
	reSS3   = regexp.MustCompile(`^\x1bO([A-Za-z])$`)
	reCSI1  = regexp.MustCompile(`^\x1b\[([A-Za-z])$`)
)

// XtermModified returns the sequence xterm sends for the key whose unmodified sequence is
// base when modifier parameter m is active ("PC-style function keys"): CSI n ; m ~ for
// CSI n ~, and CSI 1 ; m X for SS3 X or CSI X. ok=false if base has neither shape.
func XtermModified(base string, m int) (string, bool) {
	if g := reTilde.FindStringSubmatch(base); g != nil {
		return fmt.Sprintf("\x1b[%s;%d~", g[1], m), true
	}
	if g := reSS3.FindStringSubmatch(base); g != nil {
		return fmt.Sprintf("\x1b[1;%d%s", m, g[1]), true
	}
	if g := reCSI1.FindStringSubmatch(base); g != nil {
		return fmt.Sprintf("\x1b[1;%d%s", m, g[1]), true
	}
	return "", false
}

// ModifiableFields are the cursor, editing and function keys that take xterm modifiers.
var ModifiableFields = []string{"KeyUp", "KeyDown", "KeyRight", "KeyLeft", "KeyInsert", "KeyDelete", "KeyPgUp", "KeyPgDn", "KeyHome", "KeyEnd",
	"KeyF1", "KeyF2", "KeyF3", "KeyF4", "KeyF5", "KeyF6", "KeyF7", "KeyF8", "KeyF9", "KeyF10", "KeyF11", "KeyF12"}

// ControlByte gives the reading of a single C0 byte that the description does not itself
// assign: Ctrl-letter keys, with Backspace, Tab, Enter and Esc unmodified.
func ControlByte(b byte) KM {
	k := tcell.Key(b)
	switch k {
	case tcell.KeyBackspace, tcell.KeyTab, tcell.KeyEnter, tcell.KeyEsc:
		return KM{k, 0}
	}
	return KM{k, tcell.ModCtrl}
}

// SortedSeqs returns the keys of m sorted (short first, then bytewise).
func SortedSeqs(m map[string][]KM) []string {
	out := make([]string, 0, len(m))
	for s := range m {
		out = append(out, s)
	}
	sort.Slice(out, func(i, j int) bool {
		if len(out[i]) != len(out[j]) {
			return len(out[i]) < len(out[j])
		}
		return out[i] < out[j]
	})
	return out
}
