package color

import "math"

// XtermRGB returns the RGB value of palette index i (0..255): the 16 ANSI colours with the
// values of the published xterm/HTML chart, the 6x6x6 cube with levels 0,95,135,175,215,255
// at 16+36r+6g+b, and the grey ramp 8+10k at 232+k.
func XtermRGB(i int) int32 {
	ansi := [16]int32{0x000000, 0x800000, 0x008000, 0x808000, 0x000080, 0x800080, 0x008080, 0xC0C0C0,
		0x808080, 0xFF0000, 0x00FF00, 0xFFFF00, 0x0000FF, 0xFF00FF, 0x00FFFF, 0xFFFFFF}
	switch {
	case i < 16:
		return ansi[i]
	case i < 232:
		lv := [6]int32{0, 95, 135, 175, 215, 255}
		j := i - 16
		return lv[j/36]<<16 | lv[(j/6)%6]<<8 | lv[j%6]
	default:
		g := int32(8 + 10*(i-232))
		return g<<16 | g<<8 | g
	}
}

type Lab struct{ L, A, B float64 }

func lin(c float64) float64 {
	if c <= 0.04045 {
		return c / 12.92
	}
	return math.Pow((c+0.055)/1.055, 2.4)
}

func f(t float64) float64 {
	const d = 6.0 / 29.0
	if t > d*d*d {
		return math.Cbrt(t)
	}
	return t/(3*d*d) + 4.0/29.0
}

// ToLab converts 8-bit sRGB to CIE L*a*b* (D65 reference white, L in 0..100), using the
// sRGB primaries matrix as tabulated by Lindbloom.
func ToLab(rgb int32) Lab {
	r := lin(float64((rgb>>16)&0xff) / 255)
	g := lin(float64((rgb>>8)&0xff) / 255)
	b := lin(float64(rgb&0xff) / 255)
	x := 0.4124564*r + 0.3575761*g + 0.1804375*b
	y := 0.2126729*r + 0.7151522*g + 0.0721750*b
	z := 0.0193339*r + 0.1191920*g + 0.9503041*b
	fx, fy, fz := f(x/0.95047), f(y/1.0), f(z/1.08883)
	return Lab{116*fy - 16, 500 * (fx - fy), 200 * (fy - fz)}
}

// DeltaE76 is the CIE76 colour difference (Euclidean distance in L*a*b*).
func DeltaE76(a, b Lab) float64 {
	return math.Sqrt((a.L-b.L)*(a.L-b.L) + (a.A-b.A)*(a.A-b.A) + (a.B-b.B)*(a.B-b.B))
}
