// Package shadow is the reference "logical screen": what the application last set in every
// cell, independent of tcell's CellBuffer, plus the function that says what a conforming
// terminal must display for it given a terminal description's capabilities.
package shadow

import (
	"fmt"
	"unicode"
	"unicode/utf8"

	"github.com/gdamore/tcell/v2"
	runewidth "github.com/mattn/go-runewidth"

	refc "verif/ref/color"
	"verif/ref/vt"
)

// StyleD describes a style by value (tcell.Style has no getters for several fields, so the
// harness builds styles from descriptors and the model keeps the descriptors).
type StyleD struct {
	Fg, Bg    tcell.Color
	Attrs     tcell.AttrMask // bold blink reverse dim italic strikethrough (underline is UL)
	UL        int            // 0 none .. 5 dashed
	ULColor   tcell.Color
	URL, URLI string
	// ULViaAttr: the underline (UL must be 1) is requested through the attribute mask
	// (Style.Attributes with AttrUnderline) instead of Style.Underline
	ULViaAttr bool
}

// Style builds the tcell.Style for a descriptor.
func (d StyleD) Style() tcell.Style {
	s := tcell.StyleDefault.Foreground(d.Fg).Background(d.Bg).Attributes(d.Attrs)
	if d.ULViaAttr {
		s = tcell.StyleDefault.Foreground(d.Fg).Background(d.Bg).Attributes(d.Attrs | tcell.AttrUnderline)
	} else if d.UL != 0 {
		s = s.Underline(tcell.UnderlineStyle(d.UL))
	}
	if d.ULColor != tcell.ColorDefault {
		s = s.Underline(d.ULColor)
	}
	if d.URL != "" {
		s = s.Url(d.URL)
	}
	if d.URLI != "" {
		s = s.UrlId(d.URLI)
	}
	return s
}

func (d StyleD) IsZero() bool { return d == StyleD{} }

type Cell struct {
	R    rune
	Comb []rune
	S    StyleD
	Lock bool
	// Bookkeeping for C13
	ChangedSince bool // value-changing store (or forced repaint) since the previous Show
	Unlocked     bool // was locked and has been unlocked since the previous Show: that Show has to write it
}

type Screen struct {
	W, H        int
	Cells       []Cell
	Default     StyleD
	CursorX     int
	CursorY     int
	CursorStyle int
	CursorColor tcell.Color // last colour that took effect: valid, or ColorReset; ColorDefault = never set
	AllChanged  bool        // Sync / resize: everything may be repainted
}

func New(w, h int) *Screen {
	s := &Screen{CursorX: -1, CursorY: -1}
	s.Resize(w, h)
	return s
}

func (s *Screen) in(x, y int) bool { return x >= 0 && y >= 0 && x < s.W && y < s.H }

func (s *Screen) At(x, y int) *Cell { return &s.Cells[y*s.W+x] }

func (s *Screen) Resize(w, h int) {
	if w == s.W && h == s.H && s.Cells != nil {
		return
	}
	n := make([]Cell, w*h)
	for y := 0; y < h && y < s.H; y++ {
		for x := 0; x < w && x < s.W; x++ {
			o := s.Cells[y*s.W+x]
			o.Lock = false // a resized buffer starts unlocked (new cells)
			n[y*w+x] = o
		}
	}
	s.Cells, s.W, s.H = n, w, h
	s.AllChanged = true
}

func merge(old, st StyleD) StyleD {
	if st.Fg == tcell.ColorNone {
		st.Fg = old.Fg
	}
	if st.Bg == tcell.ColorNone {
		st.Bg = old.Bg
	}
	return st
}

func eqRunes(a, b []rune) bool {
	if len(a) != len(b) {
		return false
	}
	for i := range a {
		if a[i] != b[i] {
			return false
		}
	}
	return true
}

// Shown is what GetContent semantics make of a stored rune: blanks for control,
// zero-width and invalid runes.
func Shown(r rune) (rune, int) {
	w := runewidth.RuneWidth(r)
	if w == 0 || r < ' ' || Invisible(r) {
		return ' ', 1
	}
	return r, w
}

// Invisible: characters that occupy no cell of their own by the Unicode standard whatever a
// width table says - format characters (General Category Cf: bidi controls and isolates,
// joiners, tags ...), non-spacing and enclosing marks (Mn, Me) and noncharacters. As primary
// cell content they are shown as a blank.
func Invisible(r rune) bool {
	if r < 0 || r > 0x10ffff {
		return false // invalid values are dealt with by the width rule
	}
	if unicode.In(r, unicode.Cf, unicode.Mn, unicode.Me) {
		return true
	}
	if (r >= 0x1160 && r <= 0x11ff) || (r >= 0xd7b0 && r <= 0xd7ff) {
		return true // conjoining Hangul vowels and final consonants: no column of their own on a terminal
	}
	return (r >= 0xfdd0 && r <= 0xfdef) || r&0xfffe == 0xfffe
}

func (s *Screen) SetContent(x, y int, r rune, comb []rune, st StyleD) {
	if !s.in(x, y) {
		return
	}
	c := s.At(x, y)
	ns := merge(c.S, st)
	or, ow := Shown(c.R)
	nr, _ := Shown(r)
	if c.R != r || or != nr || !eqRunes(c.Comb, comb) || ns != c.S {
		c.ChangedSince = true
		if ow > 1 && (or != nr || !eqRunes(c.Comb, comb)) {
			for i := 1; i < ow; i++ {
				if s.in(x+i, y) {
					s.At(x+i, y).ChangedSince = true
				}
			}
		}
	}
	c.R, c.Comb, c.S = r, append([]rune(nil), comb...), ns
}

func (s *Screen) Fill(r rune, st StyleD) {
	for y := 0; y < s.H; y++ {
		for x := 0; x < s.W; x++ {
			s.SetContent(x, y, r, nil, st)
		}
	}
}

func (s *Screen) LockRegion(x, y, w, h int, lock bool) {
	for j := y; j < y+h; j++ {
		for i := x; i < x+w; i++ {
			if s.in(i, j) {
				c := s.At(i, j)
				if !lock {
					c.ChangedSince = true // repainted by the first Show after unlock
					if c.Lock {
						c.Unlocked = true
					}
				}
				c.Lock = lock
			}
		}
	}
}

// Caps is what the terminal description can express (derived by the harness from the
// entry's capability strings being present or not).
type Caps struct {
	Colors                                               int
	TrueColor                                            bool
	Bold, Underline, Reverse, Blink, Dim, Italic, Strike bool
	ULStyles, ULColor, ULRGB                             bool
	URL                                                  bool
	HideCursor                                           bool
	CursorStyles, CursorColor                            bool
}

// Want is the expected appearance of one cell; colour fields list every acceptable value
// (ties of the nearest-colour search).
type Want struct {
	Skip                                      bool // locked, or the hidden half of a wide rune: not compared as a cell of its own
	Tail                                      bool // must be the tail of the wide character to its left
	R                                         rune
	Comb                                      string
	Wide                                      int
	Fg, Bg                                    []vt.Color
	NoColor                                   bool // monochrome terminal: colours and reverse are not compared
	Bold, Reverse, Blink, Dim, Italic, Strike bool
	UL                                        int
	Ul                                        []vt.Color
	ULAny                                     bool
	Link, LinkID                              string
	LinkAny                                   bool
}

var labCache = map[int32]refc.Lab{}

func lab(v int32) refc.Lab {
	if l, ok := labCache[v]; ok {
		return l
	}
	l := refc.ToLab(v)
	labCache[v] = l
	return l
}

// nearest returns the palette indices 0..n-1 whose CIE76 distance to rgb is minimal
// (within a small tolerance).
// xterm88 is the palette of xterm's 88-colour mode (88colres.h): the 16 ANSI colours, a 4x4x4
// cube over the levels 00 8b cd ff, and 8 greys. It is NOT the first 88 entries of the
// 256-colour table.
func xterm88(i int) int32 {
	switch {
	case i < 16:
		return refc.XtermRGB(i)
	case i < 80:
		lv := [4]int32{0x00, 0x8b, 0xcd, 0xff}
		j := i - 16
		return lv[j/16]<<16 | lv[(j/4)%4]<<8 | lv[j%4]
	}
	g := [8]int32{0x2e, 0x5c, 0x73, 0x8b, 0xa2, 0xb9, 0xd0, 0xe7}[i-80]
	return g<<16 | g<<8 | g
}

func nearest(rgb int32, n int) []vt.Color {
	best := 1e18
	d := make([]float64, n)
	l := lab(rgb)
	for i := 0; i < n; i++ {
		pv := refc.XtermRGB(i)
		if n == 88 {
			pv = xterm88(i)
		}
		d[i] = refc.DeltaE76(l, lab(pv))
		if d[i] < best {
			best = d[i]
		}
	}
	var out []vt.Color
	for i := 0; i < n; i++ {
		if d[i] <= best+0.02 {
			out = append(out, vt.Color{Kind: vt.Indexed, V: int32(i)})
		}
	}
	return out
}

// Resolve says which terminal colour(s) a tcell colour must be shown as.
func Resolve(c tcell.Color, caps Caps) []vt.Color {
	def := []vt.Color{{}}
	if !c.Valid() {
		return def // ColorDefault, ColorReset, ColorNone: the terminal's default
	}
	if caps.Colors == 0 {
		return def
	}
	n := caps.Colors
	if n > 256 {
		n = 256
	}
	if c.IsRGB() {
		if caps.TrueColor {
			return []vt.Color{{Kind: vt.RGB, V: c.Hex()}}
		}
		return nearest(c.Hex(), n)
	}
	idx := int(c &^ tcell.ColorValid)
	if idx < n {
		return []vt.Color{{Kind: vt.Indexed, V: int32(idx)}}
	}
	if h := c.Hex(); h >= 0 {
		return nearest(h, n)
	}
	return nil // a "valid" colour without any value: what it shows is not specified
}

// Expect computes the display a conforming terminal must show.
func (s *Screen) Expect(caps Caps) []Want {
	out := make([]Want, s.W*s.H)
	for y := 0; y < s.H; y++ {
		for x := 0; x < s.W; x++ {
			c := s.At(x, y)
			w := &out[y*s.W+x]
			if c.Lock {
				w.Skip = true
				continue
			}
			if w.Tail {
				continue
			}
			if x > 0 {
				// right of a locked cell that holds a wide rune: the rune is never painted while
				// locked, whether it "covers" this column then is outside the statement
				if l := s.At(x-1, y); l.Lock {
					if _, lw := Shown(l.R); lw == 2 {
						w.Skip = true
						continue
					}
				}
			}
			r, wd := Shown(c.R)
			st := c.S
			if st.IsZero() {
				st = s.Default
			}
			// what is no combining mark at all is not shown: control characters, values that
			// are no characters (surrogates, beyond U+10FFFF, noncharacters)
			var cm []rune
			for _, m := range c.Comb {
				if m < ' ' || (m >= 0x7f && m < 0xa0) || !utf8.ValidRune(m) || (m >= 0xfdd0 && m <= 0xfdef) || m&0xfffe == 0xfffe {
					continue
				}
				cm = append(cm, m)
			}
			comb := string(cm)
			if wd == 2 && x+1 >= s.W {
				r, wd, comb = ' ', 1, "" // a wide rune in the last column is shown as a blank
			}
			w.R, w.Comb, w.Wide = r, comb, wd
			if wd == 2 {
				nx := &out[y*s.W+x+1]
				if s.At(x+1, y).Lock {
					w.Skip = true // wide rune over a locked neighbour: outside the statement
				} else {
					nx.Tail = true
				}
			}
			w.NoColor = caps.Colors == 0
			w.Fg, w.Bg = Resolve(st.Fg, caps), Resolve(st.Bg, caps)
			w.Bold = caps.Bold && st.Attrs&tcell.AttrBold != 0
			w.Reverse = caps.Reverse && st.Attrs&tcell.AttrReverse != 0
			w.Blink = caps.Blink && st.Attrs&tcell.AttrBlink != 0
			w.Dim = caps.Dim && st.Attrs&tcell.AttrDim != 0
			w.Italic = caps.Italic && st.Attrs&tcell.AttrItalic != 0
			w.Strike = caps.Strike && st.Attrs&tcell.AttrStrikeThrough != 0
			if st.UL != 0 && caps.Underline {
				w.UL = 1
				if caps.ULStyles {
					w.UL = st.UL
				}
				switch {
				case !caps.ULColor && !caps.ULRGB:
					w.Ul = []vt.Color{{}}
				case !st.ULColor.Valid():
					if st.ULColor == tcell.ColorReset {
						w.Ul = []vt.Color{{}}
					} else {
						w.ULAny = false
						w.Ul = []vt.Color{{}}
					}
				case st.ULColor.IsRGB() && caps.ULRGB:
					w.Ul = []vt.Color{{Kind: vt.RGB, V: st.ULColor.Hex()}}
				default:
					cc := caps
					cc.TrueColor = false
					if cc.Colors == 0 {
						cc.Colors = 256
					}
					w.Ul = Resolve(st.ULColor, cc)
					// the underline-colour sequence takes a 256-colour index on its own: an index
					// beyond the entry's colour count may also be passed through unchanged
					if !st.ULColor.IsRGB() {
						if idx := int32(st.ULColor & 0xffff); idx < 256 {
							w.Ul = append(w.Ul, vt.Color{Kind: vt.Indexed, V: idx})
						}
					}
				}
			} else {
				w.Ul = []vt.Color{{}}
			}
			if caps.URL {
				w.Link, w.LinkID = st.URL, st.URLI
				if st.URL == "" {
					w.LinkID = ""
				}
			} else {
				w.LinkAny = true // the terminal has no hyperlink support: nothing to compare
			}
		}
	}
	return out
}

func inSet(c vt.Color, set []vt.Color) bool {
	for _, x := range set {
		if x == c {
			return true
		}
	}
	return false
}

// Compare checks the terminal grid against the expectation; it returns a description of
// the first mismatch.
func Compare(t *vt.Term, want []Want, w, h int) string {
	if t.W != w || t.H != h {
		return fmt.Sprintf("terminal is %dx%d, logical screen %dx%d", t.W, t.H, w, h)
	}
	for y := 0; y < h; y++ {
		for x := 0; x < w; x++ {
			e := want[y*w+x]
			if e.Skip {
				continue
			}
			c := t.At(x, y)
			if e.Tail {
				if c.Wide != 0 {
					return fmt.Sprintf("cell (%d,%d) should be covered by the wide rune to its left, terminal shows %s", x, y, c)
				}
				continue
			}
			p := c.Pen
			bad := ""
			switch {
			case c.Junk:
				bad = "cell still holds the terminal's previous (arbitrary) contents"
			case c.R != e.R || c.Wide != e.Wide:
				bad = fmt.Sprintf("shows %q (width %d), want %q (width %d)", c.R, c.Wide, e.R, e.Wide)
			case c.Comb != e.Comb:
				bad = fmt.Sprintf("combining %+q, want %+q", c.Comb, e.Comb)
			case !e.NoColor && e.Fg != nil && !inSet(p.Fg, e.Fg):
				bad = fmt.Sprintf("foreground %v, want one of %v", p.Fg, e.Fg)
			case !e.NoColor && e.Bg != nil && !inSet(p.Bg, e.Bg):
				bad = fmt.Sprintf("background %v, want one of %v", p.Bg, e.Bg)
			case p.Bold != e.Bold || p.Blink != e.Blink || p.Dim != e.Dim || p.Italic != e.Italic || p.Strike != e.Strike:
				bad = fmt.Sprintf("attributes bold=%v blink=%v dim=%v italic=%v strike=%v, want %v %v %v %v %v", p.Bold, p.Blink, p.Dim, p.Italic, p.Strike, e.Bold, e.Blink, e.Dim, e.Italic, e.Strike)
			case !e.NoColor && p.Reverse != e.Reverse:
				bad = fmt.Sprintf("reverse=%v, want %v", p.Reverse, e.Reverse)
			case p.UL != e.UL:
				bad = fmt.Sprintf("underline style %d, want %d", p.UL, e.UL)
			case e.UL != 0 && e.Ul != nil && !inSet(p.Ul, e.Ul):
				bad = fmt.Sprintf("underline colour %v, want one of %v", p.Ul, e.Ul)
			case !e.LinkAny && (p.Link != e.Link || p.LinkID != e.LinkID):
				bad = fmt.Sprintf("hyperlink %q (%q), want %q (%q)", p.Link, p.LinkID, e.Link, e.LinkID)
			}
			if bad != "" {
				return fmt.Sprintf("cell (%d,%d): %s", x, y, bad)
			}
		}
	}
	return ""
}
