// Package tparm is a reference interpreter for terminfo(5) parameterized strings, written
// from the manual page (section "Parameterized Strings"), independent of tcell's TParm.
//
// Semantics follow the manual; where the manual is silent the interpreter reports the
// evaluation as Unspecified (stack underflow, popping a string where a number is needed,
// %c of 0, negative values with unsigned conversions, malformed syntax) so that callers
// compare only what is defined.
package tparm

import (
	"fmt"
	"strconv"
	"strings"
)

type val struct {
	isStr bool
	n     int
	s     string
}

// Machine holds the static variables (they persist across calls).
type Machine struct {
	Static [26]val
}

type Result struct {
	Out         string
	Unspecified string // non-empty: why the manual does not define this evaluation
}

type run struct {
	m      *Machine
	s      string
	pos    int
	stk    []val
	dyn    [26]val
	params [9]val
	out    strings.Builder
	unspec string
	steps  int
	incs   int
}

func (r *run) note(why string) {
	if r.unspec == "" {
		r.unspec = why
	}
}

func (r *run) push(v val)     { r.stk = append(r.stk, v) }
func (r *run) pushInt(n int)  { r.push(val{n: n}) }
func (r *run) pushBool(b bool) {
	if b {
		r.pushInt(1)
	} else {
		r.pushInt(0)
	}
}

func (r *run) pop() val {
	if len(r.stk) == 0 {
		r.note("stack underflow")
		return val{}
	}
	v := r.stk[len(r.stk)-1]
	r.stk = r.stk[:len(r.stk)-1]
	return v
}

func (r *run) popInt() int {
	v := r.pop()
	if v.isStr {
		r.note("string popped where a number is needed")
		n, _ := strconv.Atoi(v.s)
		return n
	}
	return v.n
}

func (r *run) popStr() string {
	v := r.pop()
	if !v.isStr {
		r.note("number popped where a string is needed")
		return strconv.Itoa(v.n)
	}
	return v.s
}

// Eval evaluates s with the given parameters (int or string).
func (m *Machine) Eval(s string, params ...interface{}) Result {
	r := &run{m: m, s: s}
	for i := 0; i < 9 && i < len(params); i++ {
		switch v := params[i].(type) {
		case int:
			r.params[i] = val{n: v}
		case string:
			r.params[i] = val{isStr: true, s: v}
		}
	}
	r.exec()
	return Result{r.out.String(), r.unspec}
}

func (r *run) next() (byte, bool) {
	if r.pos >= len(r.s) {
		return 0, false
	}
	c := r.s[r.pos]
	r.pos++
	return c, true
}

// skipTo advances past the matching %e (if stopAtElse) or %; of the current conditional,
// honouring nesting. It returns the terminator found ('e', ';') or 0 at end of string.
func (r *run) skipTo(stopAtElse bool) byte {
	depth := 0
	for r.pos < len(r.s) {
		c := r.s[r.pos]
		r.pos++
		if c != '%' {
			continue
		}
		if r.pos >= len(r.s) {
			return 0
		}
		c = r.s[r.pos]
		r.pos++
		switch c {
		case '?':
			depth++
		case ';':
			if depth == 0 {
				return ';'
			}
			depth--
		case 'e':
			if depth == 0 && stopAtElse {
				return 'e'
			}
		case '\'':
			// %'c' : the constant's character must not be read as an operator
			if r.pos+1 < len(r.s) && r.s[r.pos+1] == '\'' {
				r.pos += 2
			}
		case '{':
			for r.pos < len(r.s) && r.s[r.pos] != '}' {
				r.pos++
			}
		}
	}
	return 0
}

func (r *run) exec() {
	for {
		c, ok := r.next()
		if !ok {
			return
		}
		if c != '%' {
			r.out.WriteByte(c)
			continue
		}
		c, ok = r.next()
		if !ok {
			r.note("string ends after %")
			return
		}
		switch c {
		case '%':
			r.out.WriteByte('%')
		case 'i':
			r.incs++
			if r.incs > 1 {
				r.note("repeated %i (ncurses applies it once)")
			}
			if !r.params[0].isStr {
				r.params[0].n++
			}
			if !r.params[1].isStr {
				r.params[1].n++
			}
		case 'p':
			d, ok := r.next()
			if !ok || d < '1' || d > '9' {
				r.note("bad %p")
				continue
			}
			r.push(r.params[d-'1'])
		case 'P':
			d, ok := r.next()
			switch {
			case ok && d >= 'a' && d <= 'z':
				r.dyn[d-'a'] = r.pop()
			case ok && d >= 'A' && d <= 'Z':
				r.m.Static[d-'A'] = r.pop()
			default:
				r.note("bad %P")
			}
		case 'g':
			d, ok := r.next()
			switch {
			case ok && d >= 'a' && d <= 'z':
				r.push(r.dyn[d-'a'])
			case ok && d >= 'A' && d <= 'Z':
				r.push(r.m.Static[d-'A'])
			default:
				r.note("bad %g")
			}
		case '\'':
			ch, ok1 := r.next()
			q, ok2 := r.next()
			if !ok1 || !ok2 || q != '\'' {
				r.note("bad character constant")
				continue
			}
			r.pushInt(int(ch))
		case '{':
			n, digits := 0, 0
			for {
				d, ok := r.next()
				if !ok {
					r.note("unterminated %{")
					break
				}
				if d == '}' {
					break
				}
				if d < '0' || d > '9' {
					r.note("bad integer constant")
					continue
				}
				n = n*10 + int(d-'0')
				digits++
			}
			if digits == 0 {
				r.note("empty integer constant")
			}
			r.pushInt(n)
		case 'l':
			r.pushInt(len(r.popStr()))
		case '+', '-', '*', '/', 'm', '&', '|', '^', '=', '<', '>', 'A', 'O':
			b := r.popInt()
			a := r.popInt()
			switch c {
			case '+':
				r.pushInt(a + b)
			case '-':
				r.pushInt(a - b)
			case '*':
				r.pushInt(a * b)
			case '/':
				if b == 0 {
					r.note("division by zero")
					r.pushInt(0)
				} else {
					r.pushInt(a / b)
				}
			case 'm':
				if b == 0 {
					r.note("modulo by zero")
					r.pushInt(0)
				} else {
					r.pushInt(a % b)
				}
			case '&':
				r.pushInt(a & b)
			case '|':
				r.pushInt(a | b)
			case '^':
				r.pushInt(a ^ b)
			case '=':
				r.pushBool(a == b)
			case '<':
				r.pushBool(a < b)
			case '>':
				r.pushBool(a > b)
			case 'A':
				r.pushBool(a != 0 && b != 0)
			case 'O':
				r.pushBool(a != 0 || b != 0)
			}
		case '!':
			r.pushBool(r.popInt() == 0)
		case '~':
			r.pushInt(^r.popInt())
		case '?':
			// start of conditional: nothing to do
		case 't':
			if r.popInt() == 0 {
				// skip the then-part: resume after the matching %e, or after %; if none
				if r.skipTo(true) == 0 {
					r.note("conditional without %;")
				}
			}
		case 'e':
			// reached after executing a then-part: skip to the matching %;
			if r.skipTo(false) == 0 {
				r.note("conditional without %;")
			}
		case ';':
			// end of conditional
		case 'c':
			n := r.popInt()
			if n == 0 {
				r.note("%c of 0")
			}
			if n < 0 || n > 255 {
				r.note("%c out of byte range")
			}
			r.out.WriteByte(byte(n))
		case 'd', 's', 'x', 'X', 'o', ':', ' ', '#', '0', '1', '2', '3', '4', '5', '6', '7', '8', '9', '.':
			r.pos--
			r.format()
		default:
			r.note(fmt.Sprintf("unknown %%%c", c))
		}
	}
}

// format handles %[[:]flags][width[.precision]][doxXsc].
func (r *run) format() {
	var minus, plus, space, alt, zero bool
	c, ok := r.next()
	if ok && c == ':' {
		c, ok = r.next()
		if ok && c == '+' {
			r.note("%:+ (the manual introduces ':' only to protect a '-' flag; ncurses reads + as the operator)")
		}
	}
	for ok && (c == '-' || c == '+' || c == ' ' || c == '#') {
		switch c {
		case '-':
			minus = true
		case '+':
			plus = true
		case ' ':
			space = true
		case '#':
			alt = true
		}
		c, ok = r.next()
	}
	width, prec, hasPrec := 0, 0, false
	if ok && c == '0' {
		zero = true
	}
	for ok && c >= '0' && c <= '9' {
		width = width*10 + int(c-'0')
		c, ok = r.next()
	}
	if ok && c == '.' {
		hasPrec = true
		c, ok = r.next()
		for ok && c >= '0' && c <= '9' {
			prec = prec*10 + int(c-'0')
			c, ok = r.next()
		}
	}
	if !ok {
		r.note("format without conversion")
		return
	}
	var body, sign, prefix string
	switch c {
	case 'd':
		n := r.popInt()
		if n < 0 {
			sign = "-"
			body = strconv.Itoa(-n)
		} else {
			body = strconv.Itoa(n)
			if plus {
				sign = "+"
			} else if space {
				sign = " "
			}
		}
	case 'x', 'X', 'o':
		n := r.popInt()
		if n < 0 {
			r.note("negative value with an unsigned conversion")
		}
		if plus || space {
			r.note("sign flag with an unsigned conversion")
		}
		switch c {
		case 'x':
			body = strconv.FormatInt(int64(n), 16)
		case 'X':
			body = strings.ToUpper(strconv.FormatInt(int64(n), 16))
		case 'o':
			body = strconv.FormatInt(int64(n), 8)
		}
		if alt {
			if n == 0 {
				r.note("# flag with value 0")
			}
			switch c {
			case 'x':
				prefix = "0x"
			case 'X':
				prefix = "0X"
			case 'o':
				if !hasPrec || prec <= len(body) {
					prefix = "0"
				}
			}
		}
	case 's':
		s := r.popStr()
		if hasPrec && prec < len(s) {
			s = s[:prec]
		}
		if plus || space || alt || zero {
			r.note("numeric flag with %s")
		}
		pad := width - len(s)
		if pad < 0 {
			pad = 0
		}
		if minus {
			r.out.WriteString(s + strings.Repeat(" ", pad))
		} else {
			r.out.WriteString(strings.Repeat(" ", pad) + s)
		}
		return
	case 'c':
		n := r.popInt()
		if width != 0 || hasPrec || minus || plus || space || alt {
			r.note("%c with flags or width")
		}
		if n == 0 {
			r.note("%c of 0")
		}
		r.out.WriteByte(byte(n))
		return
	default:
		r.note("bad conversion")
		return
	}
	if hasPrec {
		if prec == 0 && body == "0" {
			r.note("zero value with zero precision")
		}
		for len(body) < prec {
			body = "0" + body
		}
		zero = false // C: the 0 flag is ignored when a precision is given
	}
	total := len(sign) + len(prefix) + len(body)
	pad := width - total
	if pad < 0 {
		pad = 0
	}
	switch {
	case minus:
		r.out.WriteString(sign + prefix + body + strings.Repeat(" ", pad))
	case zero:
		r.out.WriteString(sign + prefix + strings.Repeat("0", pad) + body)
	default:
		r.out.WriteString(strings.Repeat(" ", pad) + sign + prefix + body)
	}
}

// WellFormed checks the syntax of a parameterized string against the manual's grammar and
// returns the highest parameter number referenced.
func WellFormed(s string) (maxParam int, err error) {
	depth := 0
	// per open conditional: has %t been seen since the last %? / %e
	for i := 0; i < len(s); i++ {
		if s[i] != '%' {
			continue
		}
		i++
		if i >= len(s) {
			return maxParam, fmt.Errorf("string ends after %%")
		}
		switch c := s[i]; c {
		case '%', 'i', 'l', '+', '-', '*', '/', 'm', '&', '|', '^', '=', '<', '>', 'A', 'O', '!', '~', 'c', 'd', 's', 'x', 'X', 'o':
		case 'p':
			i++
			if i >= len(s) || s[i] < '1' || s[i] > '9' {
				return maxParam, fmt.Errorf("bad %%p at %d", i)
			}
			if n := int(s[i] - '0'); n > maxParam {
				maxParam = n
			}
		case 'P', 'g':
			i++
			if i >= len(s) || !((s[i] >= 'a' && s[i] <= 'z') || (s[i] >= 'A' && s[i] <= 'Z')) {
				return maxParam, fmt.Errorf("bad %%%c at %d", c, i)
			}
		case '\'':
			if i+2 >= len(s) || s[i+2] != '\'' {
				return maxParam, fmt.Errorf("bad character constant at %d", i)
			}
			i += 2
		case '{':
			j := i + 1
			for j < len(s) && s[j] >= '0' && s[j] <= '9' {
				j++
			}
			if j == i+1 || j >= len(s) || s[j] != '}' {
				return maxParam, fmt.Errorf("bad integer constant at %d", i)
			}
			i = j
		case '?':
			depth++
		case 't', 'e':
			if depth == 0 {
				return maxParam, fmt.Errorf("%%%c outside a conditional at %d", c, i)
			}
		case ';':
			if depth == 0 {
				return maxParam, fmt.Errorf("%%; without %%? at %d", i)
			}
			depth--
		case ':', ' ', '#', '0', '1', '2', '3', '4', '5', '6', '7', '8', '9', '.':
			j := i
			if s[j] == ':' {
				j++
			}
			for j < len(s) && strings.IndexByte("-+ #", s[j]) >= 0 {
				j++
			}
			for j < len(s) && ((s[j] >= '0' && s[j] <= '9') || s[j] == '.') {
				j++
			}
			if j >= len(s) || strings.IndexByte("doxXsc", s[j]) < 0 {
				return maxParam, fmt.Errorf("bad format at %d", i)
			}
			i = j
		default:
			return maxParam, fmt.Errorf("unknown %%%c at %d", c, i)
		}
	}
	if depth != 0 {
		return maxParam, fmt.Errorf("unterminated conditional")
	}
	return maxParam, nil
}
