// Package vt is the reference terminal: a strict ECMA-48 / xterm-subset emulator written
// from the standards (ECMA-48, xterm ctlseqs), never from tcell's capability strings. It
// keeps a cell grid with resolved attributes and per-cell write stamps, the mode registers
// C04 inspects, and a list of well-formedness errors for everything it cannot parse (C09).
package vt

import (
	"fmt"
	"strings"
	"unicode"
	"unicode/utf8"

	runewidth "github.com/mattn/go-runewidth"
	xenc "golang.org/x/text/encoding"
)

func init() { runewidth.DefaultCondition.EastAsianWidth = false }

type ColorKind uint8

const (
	Default ColorKind = iota
	Indexed
	RGB
)

type Color struct {
	Kind ColorKind
	V    int32 // palette index or 0xRRGGBB
}

func (c Color) String() string {
	switch c.Kind {
	case Indexed:
		return fmt.Sprintf("idx%d", c.V)
	case RGB:
		return fmt.Sprintf("#%06x", c.V)
	}
	return "default"
}

// Pen is the current graphic rendition.
type Pen struct {
	Fg, Bg, Ul                                Color
	Bold, Dim, Italic, Blink, Reverse, Strike bool
	UL                                        int // 0 none 1 single 2 double 3 curly 4 dotted 5 dashed
	Link, LinkID                              string
}

type Cell struct {
	R     rune
	Comb  string
	Pen   Pen
	Wide  int // 1 normal, 2 head of a wide character, 0 tail of a wide character
	Stamp int // Write block that last touched the cell
	Junk  bool
}

func (c Cell) String() string {
	return fmt.Sprintf("%q%+q w%d fg=%v bg=%v ul=%d/%v b%v d%v i%v k%v r%v s%v link=%q", c.R, c.Comb, c.Wide, c.Pen.Fg, c.Pen.Bg, c.Pen.UL, c.Pen.Ul, c.Pen.Bold, c.Pen.Dim, c.Pen.Italic, c.Pen.Blink, c.Pen.Reverse, c.Pen.Strike, c.Pen.Link)
}

// Quirks are the few per-terminal deviations the database relies on.
type Quirks struct {
	FFClears   bool          // sun: form feed clears the screen and homes the cursor
	AltFont    bool          // ansi/pcansi: SGR 11/10 switch the alternate (ACS) font
	AcsMap     map[byte]rune // glyph shown for a byte while the alternate character set is active
	DefaultFg  Color         // what "default colours" (SGR 39/49, op) mean; aixterm/pcansi op sets an explicit pair
	DefaultBg  Color
	NoAutoWrap bool // terminal has no automatic margins
	// EagerWrap: automatic margins without the deferred wrap of the VT100 (am without xenl):
	// the cursor moves to the next line as soon as the last column has been written, which on
	// the last line scrolls the screen. This is the terminal a library has in mind when it
	// paints the bottom-right cell through its neighbour and an insert-character.
	EagerWrap bool
}

type Term struct {
	W, H      int
	main, alt []Cell
	AltScreen bool
	CX, CY    int
	wrapNext  bool
	marginHit bool // autowrap off: the last glyph was written in the last column (the cursor stayed on it)
	Pen       Pen
	Q         Quirks

	CursorVisible bool
	CursorStyle   int          // DECSCUSR parameter, 0 = default
	CursorColor   string       // "" = default
	Modes         map[int]bool // DEC private modes
	AnsiModes     map[int]bool
	KeypadApp     bool
	G             [2]byte // designated sets: 'B' ASCII, '0' DEC special graphics
	Shift         int     // 0 = G0 invoked, 1 = G1
	altFontOn     bool
	Title         string
	TitleStack    []string
	SavedCX       int
	SavedCY       int
	Bells         int
	Clipboard     []string
	WinSizeReq    [][2]int
	Scrolled      int // number of times output made the screen scroll (never expected)
	PrintsOnMain  int // characters printed while the main (not the alternate) screen was active

	Errors  []string // well-formedness violations
	Ignored map[string]int
	Text    []rune // every character printed (after charset decoding), for payload checks

	stamp   int
	dec     xenc.Encoding // nil = UTF-8
	pending []byte        // incomplete multi-byte character
	st      int
	params  []byte
	inter   []byte
	osc     []byte
	oscEsc  bool
}

const (
	stGround = iota
	stEsc
	stEscInter
	stCSI
	stOSC
)

// New creates a terminal. enc nil means UTF-8.
func New(w, h int, enc xenc.Encoding, q Quirks) *Term {
	t := &Term{W: w, H: h, Q: q, dec: enc}
	t.Modes = map[int]bool{7: !q.NoAutoWrap}
	t.AnsiModes = map[int]bool{}
	t.Ignored = map[string]int{}
	t.G = [2]byte{'B', 'B'}
	t.CursorVisible = true
	t.main = t.blank(w * h)
	t.alt = t.blank(w * h)
	return t
}

func (t *Term) blank(n int) []Cell {
	c := make([]Cell, n)
	for i := range c {
		c[i] = Cell{R: ' ', Wide: 1}
	}
	return c
}

func (t *Term) grid() []Cell {
	if t.AltScreen {
		return t.alt
	}
	return t.main
}

// At returns the cell at (x,y) of the active screen.
func (t *Term) At(x, y int) *Cell { return &t.grid()[y*t.W+x] }

// Stamp returns the number of the current / last Write block.
func (t *Term) Stamp() int { return t.stamp }

// Resize changes the window size the way a terminal does: content is kept top-left.
func (t *Term) Resize(w, h int) {
	re := func(old []Cell) []Cell {
		n := t.blank(w * h)
		for y := 0; y < h && y < t.H; y++ {
			for x := 0; x < w && x < t.W; x++ {
				n[y*w+x] = old[y*t.W+x]
			}
		}
		return n
	}
	t.main, t.alt = re(t.main), re(t.alt)
	t.W, t.H = w, h
	if t.CX >= w {
		t.CX = w - 1
	}
	if t.CY >= h {
		t.CY = h - 1
	}
	if t.CX < 0 {
		t.CX = 0
	}
	if t.CY < 0 {
		t.CY = 0
	}
	t.wrapNext = false
	t.marginHit = false
}

// Scramble simulates arbitrary previous contents: every cell, the cursor and the pen.
func (t *Term) Scramble() {
	g := t.grid()
	for i := range g {
		g[i] = Cell{R: '#', Wide: 1, Junk: true, Pen: Pen{Fg: Color{Indexed, 5}, Bg: Color{Indexed, 3}, Bold: true, Reverse: true, UL: 1}}
	}
	t.Pen = Pen{Fg: Color{Indexed, 2}, Bold: true, Italic: true, Link: "junk"}
	if t.W > 0 && t.H > 0 {
		t.CX, t.CY = t.W/2, t.H/2
	}
	t.wrapNext = false
	t.marginHit = false
}

func (t *Term) err(format string, a ...interface{}) {
	if len(t.Errors) < 50 {
		t.Errors = append(t.Errors, fmt.Sprintf(format, a...))
	}
}

// Write interprets one block of output.
func (t *Term) Write(b []byte) {
	t.stamp++
	for _, c := range b {
		t.byteIn(c)
	}
}

func (t *Term) byteIn(c byte) {
	switch t.st {
	case stGround:
		t.ground(c)
	case stEsc:
		t.esc(c)
	case stEscInter:
		t.escInter(c)
	case stCSI:
		t.csi(c)
	case stOSC:
		t.oscByte(c)
	}
}

func (t *Term) flushPending(why string) {
	if len(t.pending) > 0 {
		t.err("incomplete multi-byte character % x before %s", t.pending, why)
		t.pending = nil
	}
}

func (t *Term) ground(c byte) {
	if t.acsActive() && c != 0x1b && c != 0x0e && c != 0x0f {
		// while the alternate character set is active a byte selects a glyph of that set
		// (CP437 fonts have glyphs on control and high bytes too)
		if g, ok := t.Q.AcsMap[c]; ok {
			t.flushPending("alternate character set glyph")
			t.printGlyph(g)
			return
		}
	}
	if c < 0x20 || c == 0x7f {
		t.flushPending(fmt.Sprintf("control byte %#02x", c))
		t.c0(c)
		return
	}
	if t.dec == nil {
		// UTF-8
		if c < 0x80 && len(t.pending) == 0 {
			t.print(rune(c))
			return
		}
		t.pending = append(t.pending, c)
		if utf8.FullRune(t.pending) {
			r, n := utf8.DecodeRune(t.pending)
			if r == utf8.RuneError && n <= 1 {
				t.err("invalid UTF-8 byte sequence % x in output", t.pending)
				t.pending = nil
				return
			}
			t.pending = t.pending[n:]
			if len(t.pending) > 0 {
				t.err("invalid UTF-8 byte sequence in output")
				t.pending = nil
			}
			t.print(r)
		} else if len(t.pending) >= 4 {
			t.err("invalid UTF-8 byte sequence % x in output", t.pending)
			t.pending = nil
		}
		return
	}
	if c < 0x80 && len(t.pending) == 0 {
		t.print(rune(c))
		return
	}
	t.pending = append(t.pending, c)
	dst := make([]byte, 16)
	d := t.dec.NewDecoder()
	nd, ns, err := d.Transform(dst, t.pending, false)
	if err != nil && nd == 0 {
		if len(t.pending) >= 4 {
			t.err("bytes % x are not valid in the terminal's character set", t.pending)
			t.pending = nil
		}
		return
	}
	if nd > 0 {
		r, _ := utf8.DecodeRune(dst[:nd])
		if r == utf8.RuneError {
			t.err("bytes % x are not valid in the terminal's character set", t.pending[:ns])
		} else if r == 0x1a {
			t.err("encoder substitution byte 0x1A in output")
		} else {
			t.print(r)
		}
		t.pending = t.pending[ns:]
		if len(t.pending) > 0 {
			rest := t.pending
			t.pending = nil
			for _, x := range rest {
				t.ground(x)
			}
		}
	}
}

func (t *Term) c0(c byte) {
	switch c {
	case 0x00: // NUL: padding, ignored
	case 0x07:
		t.Bells++
	case 0x08:
		if t.CX > 0 {
			t.CX--
		}
		t.wrapNext = false
		t.marginHit = false
	case 0x09:
		t.CX = (t.CX/8 + 1) * 8
		if t.CX >= t.W {
			t.CX = t.W - 1
		}
	case 0x0a, 0x0b:
		t.lineFeed()
	case 0x0c:
		if t.Q.FFClears {
			t.eraseDisplay(2)
			t.CX, t.CY, t.wrapNext, t.marginHit = 0, 0, false, false
		} else {
			t.lineFeed()
		}
	case 0x0d:
		t.CX = 0
		t.wrapNext = false
		t.marginHit = false
	case 0x0e:
		t.Shift = 1
	case 0x0f:
		t.Shift = 0
	case 0x1b:
		t.st = stEsc
	default:
		t.err("control byte %#02x in output", c)
	}
}

func (t *Term) lineFeed() {
	if t.CY == t.H-1 {
		t.Scrolled++
		g := t.grid()
		copy(g, g[t.W:])
		for x := 0; x < t.W; x++ {
			g[(t.H-1)*t.W+x] = Cell{R: ' ', Wide: 1, Stamp: t.stamp, Pen: Pen{Bg: t.Pen.Bg}}
		}
	} else {
		t.CY++
	}
	t.wrapNext = false
	t.marginHit = false
}

func (t *Term) acsActive() bool {
	return t.G[t.Shift] == '0' || t.altFontOn
}

func (t *Term) print(r rune) {
	if r >= 0x80 && r < 0xa0 {
		t.err("C1 control U+%04X in output", r)
		return
	}
	t.printGlyph(r)
}

func (t *Term) printGlyph(r rune) {
	if !t.AltScreen {
		t.PrintsOnMain++
	}
	t.Text = append(t.Text, r)
	w := runewidth.RuneWidth(r)
	if r >= 0 && r <= 0x10ffff && (unicode.In(r, unicode.Cf, unicode.Mn, unicode.Me) || (r >= 0x1160 && r <= 0x11ff) || (r >= 0xd7b0 && r <= 0xd7ff)) { // (conjoining Hangul vowels and finals take no column of their own: wcwidth 0 in xterm, VTE, glibc)
		w = 0 // no cell of their own by the Unicode standard, whatever the width table says
	}
	if w == 0 {
		// combining: attaches to the previously printed cell
		x := t.CX - 1
		if t.wrapNext || t.marginHit {
			x = t.CX // the glyph just written is under the cursor, not left of it
		}
		if x < 0 || t.W == 0 {
			t.Ignored["combining character with no base"]++
			return
		}
		c := t.At(x, t.CY)
		if c.Wide == 0 && x > 0 {
			c = t.At(x-1, t.CY)
		}
		c.Comb += string(r)
		c.Stamp = t.stamp
		return
	}
	if t.W == 0 || t.H == 0 {
		return
	}
	if t.wrapNext {
		if t.Modes[7] {
			t.CX = 0
			t.lineFeed()
		}
		t.wrapNext = false
		t.marginHit = false
	}
	t.marginHit = false
	if w == 2 && t.CX == t.W-1 {
		if t.Modes[7] {
			t.CX = 0
			t.lineFeed()
		} else {
			t.Ignored["wide character at the right margin without autowrap"]++
			return
		}
	}
	t.clearAt(t.CX, t.CY)
	if w == 2 {
		t.clearAt(t.CX+1, t.CY)
	}
	*t.At(t.CX, t.CY) = Cell{R: r, Pen: t.Pen, Wide: w, Stamp: t.stamp}
	if w == 2 {
		*t.At(t.CX+1, t.CY) = Cell{R: 0, Pen: t.Pen, Wide: 0, Stamp: t.stamp}
	}
	t.CX += w
	if t.CX >= t.W {
		t.CX = t.W - 1
		t.marginHit = !t.Modes[7]
		if t.Modes[7] {
			t.wrapNext = true
			if t.Q.EagerWrap {
				t.CX = 0
				t.lineFeed()
				t.wrapNext = false
				t.marginHit = false
			}
		}
	}
}

// clearAt prepares a cell for overwriting: overwriting either half of a wide character
// blanks the other half.
func (t *Term) clearAt(x, y int) {
	c := t.At(x, y)
	switch c.Wide {
	case 2:
		if x+1 < t.W {
			o := t.At(x+1, y)
			*o = Cell{R: ' ', Wide: 1, Pen: o.Pen, Stamp: t.stamp}
		}
	case 0:
		if x > 0 {
			o := t.At(x-1, y)
			*o = Cell{R: ' ', Wide: 1, Pen: o.Pen, Stamp: t.stamp}
		}
	}
}

func (t *Term) esc(c byte) {
	t.st = stGround
	switch c {
	case '[':
		t.st = stCSI
		t.params, t.inter = t.params[:0], t.inter[:0]
	case ']':
		t.st = stOSC
		t.osc = t.osc[:0]
		t.oscEsc = false
	case '(', ')', '*', '+', '#', '%', ' ':
		t.st = stEscInter
		t.inter = append(t.inter[:0], c)
	case '7':
		t.SavedCX, t.SavedCY = t.CX, t.CY
	case '8':
		t.CX, t.CY, t.wrapNext, t.marginHit = t.SavedCX, t.SavedCY, false, false
	case '=':
		t.KeypadApp = true
	case '>':
		t.KeypadApp = false
	case 'M':
		if t.CY > 0 {
			t.CY--
		}
	case 'c':
		t.Ignored["RIS"]++
	case '\\':
		t.err("string terminator ESC \\ outside a control string")
	default:
		t.err("unknown escape sequence ESC %q", c)
	}
}

func (t *Term) escInter(c byte) {
	t.st = stGround
	switch t.inter[0] {
	case '(':
		t.G[0] = c
	case ')':
		t.G[1] = c
	default:
		t.Ignored[fmt.Sprintf("ESC %c %c", t.inter[0], c)]++
	}
	if (t.inter[0] == '(' || t.inter[0] == ')') && c != 'B' && c != '0' && c != 'A' {
		t.err("unknown character set designation ESC %c %q", t.inter[0], c)
	}
}

func (t *Term) csi(c byte) {
	switch {
	case c >= 0x30 && c <= 0x3f:
		if len(t.inter) > 0 {
			t.err("CSI parameter byte %q after an intermediate byte", c)
		}
		t.params = append(t.params, c)
	case c >= 0x20 && c <= 0x2f:
		t.inter = append(t.inter, c)
	case c >= 0x40 && c <= 0x7e:
		t.st = stGround
		t.dispatchCSI(c)
	default:
		t.err("byte %#02x inside a CSI sequence (parameters %q)", c, t.params)
		t.st = stGround
		if c == 0x1b {
			t.st = stEsc
		}
	}
}

// parseParams splits "1;2:3" into [[1],[2,3]]; missing values are -1.
func (t *Term) parseParams(p []byte) [][]int {
	var out [][]int
	cur := []int{}
	n, has := 0, false
	flush := func() {
		if has {
			cur = append(cur, n)
		} else {
			cur = append(cur, -1)
		}
		n, has = 0, false
	}
	for _, c := range p {
		switch {
		case c >= '0' && c <= '9':
			n = n*10 + int(c-'0')
			has = true
			if n > 1<<24 {
				t.err("absurd numeric parameter in CSI sequence")
				n = 1 << 24
			}
		case c == ';':
			flush()
			out = append(out, cur)
			cur = []int{}
		case c == ':':
			flush()
		default:
			t.err("non-numeric parameter byte %q in CSI sequence %q", c, p)
		}
	}
	flush()
	out = append(out, cur)
	return out
}

func first(ps [][]int, i, def int) int {
	if i < len(ps) && len(ps[i]) > 0 && ps[i][0] >= 0 {
		return ps[i][0]
	}
	return def
}

func (t *Term) dispatchCSI(final byte) {
	p := t.params
	prefix := byte(0)
	if len(p) > 0 && (p[0] == '?' || p[0] == '>' || p[0] == '=' || p[0] == '<') {
		prefix = p[0]
		p = p[1:]
	}
	ps := t.parseParams(p)
	inter := string(t.inter)
	key := fmt.Sprintf("CSI %c%s%c", prefix, inter, final)
	if prefix == 0 {
		key = fmt.Sprintf("CSI %s%c", inter, final)
	}
	switch {
	case prefix == 0 && inter == "" && (final == 'H' || final == 'f'):
		row, col := first(ps, 0, 1), first(ps, 1, 1)
		if row < 1 {
			row = 1
		}
		if col < 1 {
			col = 1
		}
		t.CY, t.CX = min(row, t.H)-1, min(col, t.W)-1
		if t.CY < 0 {
			t.CY = 0
		}
		if t.CX < 0 {
			t.CX = 0
		}
		t.wrapNext = false
		t.marginHit = false
	case prefix == 0 && inter == "" && final == 'A':
		t.CY = max(0, t.CY-max(1, first(ps, 0, 1)))
		t.wrapNext = false
		t.marginHit = false
	case prefix == 0 && inter == "" && final == 'B':
		t.CY = min(t.H-1, t.CY+max(1, first(ps, 0, 1)))
		t.wrapNext = false
		t.marginHit = false
	case prefix == 0 && inter == "" && final == 'C':
		t.CX = min(t.W-1, t.CX+max(1, first(ps, 0, 1)))
		t.wrapNext = false
		t.marginHit = false
	case prefix == 0 && inter == "" && final == 'D':
		t.CX = max(0, t.CX-max(1, first(ps, 0, 1)))
		t.wrapNext = false
		t.marginHit = false
	case prefix == 0 && inter == "" && final == 'J':
		t.eraseDisplay(first(ps, 0, 0))
	case prefix == 0 && inter == "" && final == 'K':
		t.eraseLine(first(ps, 0, 0))
	case prefix == 0 && inter == "" && final == 'm':
		t.sgr(ps)
	case prefix == 0 && inter == "" && final == '@':
		t.insertChars(max(1, first(ps, 0, 1)))
	case inter == "" && (final == 'h' || final == 'l'):
		on := final == 'h'
		for i := range ps {
			n := first(ps, i, -1)
			if n < 0 {
				t.err("mode sequence %s without a number", key)
				continue
			}
			if prefix == '?' {
				t.setPrivate(n, on)
			} else if prefix == 0 {
				t.AnsiModes[n] = on
			} else {
				t.Ignored[key]++
			}
		}
	case prefix == 0 && inter == "" && final == 't':
		switch first(ps, 0, -1) {
		case 22:
			t.TitleStack = append(t.TitleStack, t.Title)
		case 23:
			if n := len(t.TitleStack); n > 0 {
				t.Title = t.TitleStack[n-1]
				t.TitleStack = t.TitleStack[:n-1]
			} else {
				t.Ignored["title pop on empty stack"]++
			}
		case 8:
			t.WinSizeReq = append(t.WinSizeReq, [2]int{first(ps, 2, 0), first(ps, 1, 0)})
		default:
			t.Ignored[key]++
		}
	case prefix == '>' && final == 't':
		t.Ignored["CSI > t (title modes)"]++
	case prefix == 0 && inter == " " && final == 'q':
		t.CursorStyle = first(ps, 0, 0)
	case prefix == '?' && inter == "" && final == 'c':
		t.Ignored["CSI ? c (linux cursor)"]++
	case prefix == 0 && inter == "" && final == 'r':
		t.Ignored["DECSTBM"]++
	case prefix == 0 && inter == "\"" && final == 'q':
		t.Ignored["DECSCA"]++
	case prefix == 0 && inter == "" && (final == 'P' || final == 'L' || final == 'M' || final == 'X' || final == 'G' || final == 'd' || final == 'g' || final == 'c' || final == 'n'):
		t.Ignored[key]++
	default:
		t.err("unknown control sequence %s (parameters %q)", key, t.params)
	}
}

func min(a, b int) int {
	if a < b {
		return a
	}
	return b
}
func max(a, b int) int {
	if a > b {
		return a
	}
	return b
}

func (t *Term) setPrivate(n int, on bool) {
	switch n {
	case 47, 1047, 1049:
		if on && !t.AltScreen {
			if n == 1049 {
				t.SavedCX, t.SavedCY = t.CX, t.CY
			}
			t.AltScreen = true
			if n != 47 {
				t.alt = t.blank(t.W * t.H)
			}
		} else if !on && t.AltScreen {
			t.AltScreen = false
			if n == 1049 {
				t.CX, t.CY, t.wrapNext, t.marginHit = t.SavedCX, t.SavedCY, false, false
			}
		}
		t.Modes[n] = on
	case 25:
		t.CursorVisible = on
		t.Modes[n] = on
	default:
		t.Modes[n] = on
	}
}

func (t *Term) eraseCell(x, y int) {
	*t.At(x, y) = Cell{R: ' ', Wide: 1, Stamp: t.stamp, Pen: Pen{Bg: t.Pen.Bg}}
}

func (t *Term) eraseDisplay(mode int) {
	if t.W == 0 || t.H == 0 {
		return
	}
	for y := 0; y < t.H; y++ {
		for x := 0; x < t.W; x++ {
			before := y < t.CY || (y == t.CY && x <= t.CX)
			after := y > t.CY || (y == t.CY && x >= t.CX)
			if mode == 2 || mode == 3 || (mode == 0 && after) || (mode == 1 && before) {
				t.eraseCell(x, y)
			}
		}
	}
	t.wrapNext = false
	t.marginHit = false
}

func (t *Term) eraseLine(mode int) {
	if t.W == 0 || t.H == 0 {
		return
	}
	for x := 0; x < t.W; x++ {
		if mode == 2 || (mode == 0 && x >= t.CX) || (mode == 1 && x <= t.CX) {
			t.clearAt(x, t.CY)
			t.eraseCell(x, t.CY)
		}
	}
	t.wrapNext = false
	t.marginHit = false
}

func (t *Term) insertChars(n int) {
	if t.W == 0 || t.H == 0 {
		return
	}
	y := t.CY
	// a wide character split by the insertion point or pushed over the margin is blanked
	if c := t.At(t.CX, y); c.Wide == 0 {
		t.clearAt(t.CX, y)
		t.eraseCell(t.CX, y)
	}
	for x := t.W - 1; x >= t.CX+n; x-- {
		*t.At(x, y) = *t.At(x-n, y)
		t.At(x, y).Stamp = t.stamp
	}
	for x := t.CX; x < t.CX+n && x < t.W; x++ {
		t.eraseCell(x, y)
	}
	if c := t.At(t.W-1, y); c.Wide == 2 {
		t.eraseCell(t.W-1, y)
	}
	t.wrapNext = false
	t.marginHit = false
}

func (t *Term) sgr(ps [][]int) {
	if len(t.params) == 0 {
		ps = [][]int{{0}}
	}
	for i := 0; i < len(ps); i++ {
		g := ps[i]
		n := g[0]
		if n < 0 {
			n = 0
		}
		switch {
		case n == 0:
			link, id := t.Pen.Link, t.Pen.LinkID
			t.Pen = Pen{Link: link, LinkID: id, Fg: t.Q.DefaultFg, Bg: t.Q.DefaultBg}
			if t.Q.AltFont {
				t.altFontOn = false
			}
		case n == 1:
			t.Pen.Bold = true
		case n == 2:
			t.Pen.Dim = true
		case n == 3:
			t.Pen.Italic = true
		case n == 4:
			t.Pen.UL = 1
			if len(g) > 1 {
				if g[1] >= 0 && g[1] <= 5 {
					t.Pen.UL = g[1]
				} else {
					t.err("unknown underline style 4:%d", g[1])
				}
			}
		case n == 5 || n == 6:
			t.Pen.Blink = true
		case n == 7:
			t.Pen.Reverse = true
		case n == 9:
			t.Pen.Strike = true
		case n == 10:
			if t.Q.AltFont {
				t.altFontOn = false
			} else {
				t.Ignored["SGR 10"]++
			}
		case n == 11:
			if t.Q.AltFont {
				t.altFontOn = true
			} else {
				t.Ignored["SGR 11"]++
			}
		case n == 12:
			// pcansi: smacs is SGR 12 (second alternate font, same CP437 glyph bytes)
			if t.Q.AltFont {
				t.altFontOn = true
			} else {
				t.Ignored["SGR 12"]++
			}
		case n == 21:
			t.Pen.UL = 2
		case n == 22:
			t.Pen.Bold, t.Pen.Dim = false, false
		case n == 23:
			t.Pen.Italic = false
		case n == 24:
			t.Pen.UL = 0
		case n == 25:
			t.Pen.Blink = false
		case n == 27:
			t.Pen.Reverse = false
		case n == 29:
			t.Pen.Strike = false
		case n >= 30 && n <= 37:
			t.Pen.Fg = Color{Indexed, int32(n - 30)}
		case n >= 40 && n <= 47:
			t.Pen.Bg = Color{Indexed, int32(n - 40)}
		case n >= 90 && n <= 97:
			t.Pen.Fg = Color{Indexed, int32(n - 90 + 8)}
		case n >= 100 && n <= 107:
			t.Pen.Bg = Color{Indexed, int32(n - 100 + 8)}
		case n == 39:
			t.Pen.Fg = t.Q.DefaultFg
		case n == 49:
			t.Pen.Bg = t.Q.DefaultBg
		case n == 59:
			t.Pen.Ul = Color{}
		case n == 38 || n == 48 || n == 58:
			var c Color
			ok := false
			if len(g) > 1 {
				// colon form: 38:5:n  38:2::r:g:b  38:2:r:g:b
				switch g[1] {
				case 5:
					if len(g) == 3 && g[2] >= 0 && g[2] <= 255 {
						c, ok = Color{Indexed, int32(g[2])}, true
					}
				case 2:
					v := g[2:]
					if len(v) == 4 {
						v = v[1:] // colour-space id (may be empty)
					}
					if len(v) == 3 && v[0] >= 0 && v[1] >= 0 && v[2] >= 0 && v[0] <= 255 && v[1] <= 255 && v[2] <= 255 {
						c, ok = Color{RGB, int32(v[0]<<16 | v[1]<<8 | v[2])}, true
					}
				}
			} else if i+1 < len(ps) {
				switch first(ps, i+1, -1) {
				case 5:
					if i+2 < len(ps) {
						v := first(ps, i+2, -1)
						if v >= 0 && v <= 255 {
							c, ok = Color{Indexed, int32(v)}, true
						}
						i += 2
					}
				case 2:
					if i+4 < len(ps) {
						r, gg, b := first(ps, i+2, -1), first(ps, i+3, -1), first(ps, i+4, -1)
						if r >= 0 && gg >= 0 && b >= 0 && r <= 255 && gg <= 255 && b <= 255 {
							c, ok = Color{RGB, int32(r<<16 | gg<<8 | b)}, true
						}
						i += 4
					}
				}
			}
			if !ok {
				t.err("malformed extended colour in SGR sequence %q", t.params)
				return
			}
			switch n {
			case 38:
				t.Pen.Fg = c
			case 48:
				t.Pen.Bg = c
			case 58:
				t.Pen.Ul = c
			}
		default:
			t.err("unknown SGR parameter %d in %q", n, t.params)
		}
	}
}

// c1Byte: in this terminal's character set the byte is a C1 control (ISO 8859: yes; KOI8-R
// and the code pages have printable characters there; in the multi-byte sets it is a lead or
// trail byte and decodes to no character on its own).
func (t *Term) c1Byte(c byte) bool {
	out, err := t.dec.NewDecoder().Bytes([]byte{c})
	if err != nil {
		return false
	}
	r, n := utf8.DecodeRune(out)
	return n == len(out) && r >= 0x80 && r < 0xa0
}

func (t *Term) oscByte(c byte) {
	if t.oscEsc {
		t.oscEsc = false
		if c == '\\' {
			t.st = stGround
			t.dispatchOSC()
			return
		}
		t.err("ESC %q inside an OSC string (unterminated control string)", c)
		t.st = stGround
		t.esc(c)
		return
	}
	switch {
	case c == 0x07:
		t.st = stGround
		t.dispatchOSC()
	case c == 0x1b:
		t.oscEsc = true
	case c < 0x20 || c == 0x7f:
		t.err("control byte %#02x inside an OSC string", c)
	case c >= 0x80 && c < 0xa0 && t.dec != nil && t.c1Byte(c):
		// an 8-bit terminal: the C1 controls are single bytes; 9c is the string terminator and
		// every other one ends the string too (here as an error)
		if c == 0x9c {
			t.st = stGround
			t.dispatchOSC()
		} else {
			t.err("C1 control byte %#02x inside an OSC string", c)
			t.st = stGround
		}
	default:
		t.osc = append(t.osc, c)
		if len(t.osc) > 1<<16 {
			t.err("unterminated OSC string")
			t.st = stGround
		}
	}
}

func (t *Term) dispatchOSC() {
	s := string(t.osc)
	num, rest := s, ""
	if i := strings.IndexByte(s, ';'); i >= 0 {
		num, rest = s[:i], s[i+1:]
	}
	for _, c := range num {
		if c < '0' || c > '9' {
			t.err("OSC with non-numeric command %q", s)
			return
		}
	}
	if t.dec == nil && !utf8.ValidString(rest) {
		t.err("OSC %s payload is not valid UTF-8", num)
	}
	switch num {
	case "0", "2":
		t.Title = rest
	case "8":
		i := strings.IndexByte(rest, ';')
		if i < 0 {
			t.err("malformed OSC 8 %q", s)
			return
		}
		params, uri := rest[:i], rest[i+1:]
		t.Pen.Link = uri
		t.Pen.LinkID = ""
		for _, kv := range strings.Split(params, ":") {
			if strings.HasPrefix(kv, "id=") {
				t.Pen.LinkID = kv[3:]
			}
		}
		if uri == "" {
			t.Pen.LinkID = ""
		}
	case "12":
		if !validColorSpec(rest) {
			t.err("OSC 12 with a malformed colour specification %q", rest)
		}
		t.CursorColor = rest
	case "112":
		t.CursorColor = ""
	case "52":
		t.Clipboard = append(t.Clipboard, rest)
	default:
		t.Ignored["OSC "+num]++
	}
}

// InString reports whether the parser is in the middle of a control sequence or
// multi-byte character (a Write block must end in the ground state).
func (t *Term) InString() bool { return t.st != stGround || len(t.pending) > 0 }

// validColorSpec: the forms xterm's OSC 10-19 accept that tcell can produce: #rgb .. #rrrrggggbbbb,
// rgb:h/h/h (1-4 hex digits each), a colour name (letters and digits only) or "?" (query).
func validColorSpec(s string) bool {
	hex := func(s string) bool {
		if s == "" {
			return false
		}
		for _, c := range s {
			if !((c >= '0' && c <= '9') || (c >= 'a' && c <= 'f') || (c >= 'A' && c <= 'F')) {
				return false
			}
		}
		return true
	}
	switch {
	case s == "?":
		return true
	case strings.HasPrefix(s, "#"):
		h := s[1:]
		return hex(h) && (len(h) == 3 || len(h) == 6 || len(h) == 9 || len(h) == 12)
	case strings.HasPrefix(s, "rgb:"):
		parts := strings.Split(s[4:], "/")
		if len(parts) != 3 {
			return false
		}
		for _, p := range parts {
			if !hex(p) || len(p) > 4 {
				return false
			}
		}
		return true
	}
	if s == "" {
		return false
	}
	for _, c := range s {
		if !((c >= 'a' && c <= 'z') || (c >= 'A' && c <= 'Z') || (c >= '0' && c <= '9') || c == ' ') {
			return false
		}
	}
	return true
}
