package main

import (
	"fmt"

	"github.com/gdamore/tcell/v2"
	"github.com/gdamore/tcell/v2/encoding"
	"github.com/gdamore/tcell/v2/terminfo"
	_ "github.com/gdamore/tcell/v2/terminfo/extended"
	ri "verif/ref/input"
)

func main() {
	encoding.Register()
	ti := terminfo.VerifGet("xterm-256color")
	p, _ := tcell.VerifNewParser(ti, "UTF-8", 80, 24)
	a := p.Feed([]byte("\x9bM !!"))
	fmt.Println(ri.ConvAll(a), p.Pending())
	a = p.Expire()
	fmt.Println(ri.ConvAll(a), p.Pending())
	p.Reset()
	a = p.Feed([]byte("\x9b<0;1;1M"))
	fmt.Println(ri.ConvAll(a), p.Pending())
}
