//go:build verif && js && wasm

package tcell

// VerifWasmCells exposes the wasm screen's logical cell buffer (state keys).
func VerifWasmCells(s Screen) *CellBuffer {
	return &s.(*baseScreen).screenImpl.(*wScreen).cells
}

// VerifWasmLockFree reports whether the wasm screen's lock is currently free (a call that
// returned while still holding it wedges every later call).
func VerifWasmLockFree(s Screen) bool {
	t := s.(*baseScreen).screenImpl.(*wScreen)
	if t.TryLock() {
		t.Unlock()
		return true
	}
	return false
}
