//go:build verif

// This file is added to package tcell at check time through `go build -overlay`; it is
// never committed to the repository. It only exposes private state and entry points the
// verification harnesses need; it changes no behaviour.
package tcell

import (
	"fmt"
	"strings"
)

// VerifCellDump renders the complete private state of a CellBuffer (used for canonical
// state keys, so that two histories are merged only if every field agrees).
func VerifCellDump(cb *CellBuffer) string {
	var sb strings.Builder
	fmt.Fprintf(&sb, "%dx%d|", cb.w, cb.h)
	for i := range cb.cells {
		c := &cb.cells[i]
		fmt.Fprintf(&sb, "%d,%v,%v,%d,%v,%v,%d,%v;", c.currMain, c.currComb, c.currStyle, c.lastMain, c.lastComb, c.lastStyle, c.width, c.lock)
	}
	return sb.String()
}

// VerifSimDump renders the private logical-buffer state of a SimulationScreen.
func VerifSimDump(s Screen) string {
	ss, ok := s.(*simscreen)
	if !ok {
		return ""
	}
	ss.Lock()
	defer ss.Unlock()
	return VerifCellDump(&ss.back) + fmt.Sprintf("|%d,%d,%v,%v,%v", ss.cursorx, ss.cursory, ss.cursorvis, ss.clear, ss.style)
}
