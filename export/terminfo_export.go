//go:build verif

// Added to package terminfo at check time through `go build -overlay`; never committed to
// the repository.
package terminfo

import "sort"

// VerifNames lists every registered name (entry names and aliases), sorted.
func VerifNames() []string {
	dblock.Lock()
	defer dblock.Unlock()
	out := make([]string, 0, len(terminfos))
	for n := range terminfos {
		out = append(out, n)
	}
	sort.Strings(out)
	return out
}

// VerifGet returns the registered entry for name without any of LookupTerminfo's
// synthesis or environment handling (nil if absent).
func VerifGet(name string) *Terminfo {
	dblock.Lock()
	defer dblock.Unlock()
	return terminfos[name]
}

// VerifSnapshot returns a deep copy of the database: name -> copy of the entry. Aliases
// that share one entry share one copy.
func VerifSnapshot() map[string]*Terminfo {
	dblock.Lock()
	defer dblock.Unlock()
	cp := map[*Terminfo]*Terminfo{}
	out := make(map[string]*Terminfo, len(terminfos))
	for n, t := range terminfos {
		c, ok := cp[t]
		if !ok {
			v := *t
			v.Aliases = append([]string(nil), t.Aliases...)
			c = &v
			cp[t] = c
		}
		out[n] = c
	}
	return out
}

// VerifRestore replaces the database by a deep copy of snap.
func VerifRestore(snap map[string]*Terminfo) {
	dblock.Lock()
	defer dblock.Unlock()
	cp := map[*Terminfo]*Terminfo{}
	terminfos = make(map[string]*Terminfo, len(snap))
	for n, t := range snap {
		c, ok := cp[t]
		if !ok {
			v := *t
			v.Aliases = append([]string(nil), t.Aliases...)
			c = &v
			cp[t] = c
		}
		terminfos[n] = c
	}
}

// VerifResetStatics clears the cross-call static variables of TParm.
func VerifResetStatics() {
	for i := range svars {
		svars[i] = ""
	}
}
