//go:build verif && !(js && wasm)

// Added to package tcell at check time through `go build -overlay` (native builds only:
// everything here touches the terminfo screen); never committed to the repository.
package tcell

import (
	"bytes"
	"fmt"
	"strings"

	"github.com/gdamore/tcell/v2/terminfo"
)

// ---- synchronous input-parser entry (C02, C03, C11, C12) ----

// VerifParser drives collectEventsFromInput exactly as mainLoop does (append the chunk to
// the pending buffer, scan without expiry; scan with expiry when the escape timer fires),
// but synchronously and without a tty, timers or goroutines.
type VerifParser struct {
	t   *tScreen
	buf bytes.Buffer
}

// VerifNewParser builds a terminfo screen for a private copy of ti (so that nothing is
// shared between parsers) with the given character set and logical size, without a tty.
func VerifNewParser(ti *terminfo.Terminfo, charset string, w, h int) (*VerifParser, error) {
	c := *ti
	s, err := NewTerminfoScreenFromTtyTerminfo(nil, &c)
	if err != nil {
		return nil, err
	}
	t := s.(*baseScreen).screenImpl.(*tScreen)
	enc := GetEncoding(charset)
	if enc == nil {
		return nil, ErrNoCharset
	}
	t.charset = charset
	t.encoder = enc.NewEncoder()
	t.decoder = enc.NewDecoder()
	t.cells.Resize(w, h)
	t.w, t.h = w, h
	return &VerifParser{t: t}, nil
}

// Feed delivers one read chunk.
func (p *VerifParser) Feed(chunk []byte) []Event {
	p.buf.Write(chunk)
	return p.t.collectEventsFromInput(&p.buf, false)
}

// Expire is the escape-timeout path.
func (p *VerifParser) Expire() []Event {
	return p.t.collectEventsFromInput(&p.buf, true)
}

// Pending returns a copy of the bytes still buffered.
func (p *VerifParser) Pending() []byte { return append([]byte{}, p.buf.Bytes()...) }

// Flags returns the parser's cross-call state.
func (p *VerifParser) Flags() (escaped, buttondn bool) { return p.t.escaped, p.t.buttondn }

// HasClipboard reports whether OSC 52 replies are parsed for this terminal.
func (p *VerifParser) HasClipboard() bool { return p.t.setClipboard != "" }

// HasMouse reports whether mouse reports are parsed for this terminal.
func (p *VerifParser) HasMouse() bool { return p.t.ti.Mouse != "" }

// VerifKey is one entry of the built key table.
type VerifKey struct {
	Key Key
	Mod ModMask
}

// KeyTable returns a copy of the escape-sequence table built by prepareKeys.
func (p *VerifParser) KeyTable() map[string]VerifKey {
	m := make(map[string]VerifKey, len(p.t.keycodes))
	for k, v := range p.t.keycodes {
		m[k] = VerifKey{v.key, v.mod}
	}
	return m
}

// VerifKeyPasteStart / VerifKeyPasteEnd are the internal pseudo keys of the paste brackets.
const (
	VerifKeyPasteStart = keyPasteStart
	VerifKeyPasteEnd   = keyPasteEnd
)

// Reset returns the parser to its initial state (empty buffer, no pending Alt prefix, no
// button held) so that one parser can be reused across enumerated inputs.
func (p *VerifParser) Reset() {
	p.buf.Reset()
	p.t.escaped = false
	p.t.buttondn = false
	p.t.buttonsdn = 0
}

// SetFlags forces the cross-call state (used to start exploration from non-initial states).
func (p *VerifParser) SetFlags(escaped, buttondn bool) {
	p.t.escaped = escaped
	p.t.buttondn = buttondn
	p.t.buttonsdn = 0
	if buttondn {
		p.t.buttonsdn = 1 // the left button
	}
}

// Resize sets the logical screen size used to clip mouse coordinates.
func (p *VerifParser) Resize(w, h int) {
	p.t.cells.Resize(w, h)
	p.t.w, p.t.h = w, h
}

// Strings returns the parameterized / control strings the screen prepared for itself
// (hard-coded xterm sequences or the entry's overrides), by name.
func (p *VerifParser) Strings() map[string]string {
	t := p.t
	m := map[string]string{
		"enablePaste": t.enablePaste, "disablePaste": t.disablePaste, "enterUrl": t.enterUrl, "exitUrl": t.exitUrl,
		"setWinSize": t.setWinSize, "enableFocus": t.enableFocus, "disableFocus": t.disableFocus,
		"doubleUnder": t.doubleUnder, "curlyUnder": t.curlyUnder, "dottedUnder": t.dottedUnder, "dashedUnder": t.dashedUnder,
		"underColor": t.underColor, "underRGB": t.underRGB, "underFg": t.underFg,
		"cursorRGB": t.cursorRGB, "cursorFg": t.cursorFg, "setTitle": t.setTitle, "saveTitle": t.saveTitle,
		"restoreTitle": t.restoreTitle, "setClipboard": t.setClipboard,
	}
	for k, v := range t.cursorStyles {
		m[fmt.Sprintf("cursorStyle%d", int(k))] = v
	}
	return m
}

// VerifScreenDump renders the private drawing state of a terminfo screen (canonical state
// keys for the explicit-state search).
func VerifScreenDump(s Screen) string {
	t, ok := s.(*baseScreen).screenImpl.(*tScreen)
	if !ok {
		return ""
	}
	t.Lock()
	defer t.Unlock()
	return VerifScreenDumpNoLock(s)
}

// VerifScreenDumpNoLock is VerifScreenDump without taking the screen lock: for the
// scheduler's state keys, evaluated while every goroutine is parked.
func VerifScreenDumpNoLock(s Screen) string {
	t, ok := s.(*baseScreen).screenImpl.(*tScreen)
	if !ok {
		return ""
	}
	var sb strings.Builder
	sb.WriteString(VerifCellDump(&t.cells))
	fmt.Fprintf(&sb, "|%d,%d,%d,%d,%v,%d,%d,%d,%v,%v,%v,%v,%v,%v|", t.w, t.h, t.cx, t.cy, t.clear, t.cursorx, t.cursory, t.cursorStyle, t.cursorColor, t.style, t.curstyle, t.fini, t.running, t.truecolor)
	keys := make([]string, 0, len(t.colors))
	for k, v := range t.colors {
		keys = append(keys, fmt.Sprintf("%d>%d", k, v))
	}
	sortStrings(keys)
	sb.WriteString(strings.Join(keys, ","))
	fmt.Fprintf(&sb, "|%d,%v,%v,%q|", t.mouseFlags, t.pasteEnabled, t.focusEnabled, t.title)
	fb := make([]string, 0, len(t.fallback))
	for k, v := range t.fallback {
		if RuneFallbacks[k] != v {
			fb = append(fb, fmt.Sprintf("%d=%s", k, v))
		}
	}
	for k := range RuneFallbacks {
		if _, ok := t.fallback[k]; !ok {
			fb = append(fb, fmt.Sprintf("-%d", k))
		}
	}
	sortStrings(fb)
	sb.WriteString(strings.Join(fb, ","))
	fmt.Fprintf(&sb, "|%v,%v,%d,%d,%v", t.escaped, t.buttondn, t.buttonsdn, t.buf.Len(), t.buffering)
	return sb.String()
}

func sortStrings(a []string) {
	for i := 1; i < len(a); i++ {
		for j := i; j > 0 && a[j] < a[j-1]; j-- {
			a[j], a[j-1] = a[j-1], a[j]
		}
	}
}

// VerifScreenStateHash is a cheap lock-free digest of the screen's private state for the
// scheduler's state keys (evaluated while every goroutine is parked): every scalar field,
// the cell buffer contents and the sizes of the maps.
// VerifEscapePending reports whether the input parser holds an ESC back as the Alt prefix of
// the next key (read while every other goroutine is parked).
func VerifEscapePending(s Screen) bool {
	t, ok := s.(*baseScreen).screenImpl.(*tScreen)
	return ok && t.escaped
}

func VerifScreenStateHash(s Screen) uint64 {
	t, ok := s.(*baseScreen).screenImpl.(*tScreen)
	if !ok {
		return 0
	}
	h := uint64(14695981039346656037)
	add := func(v uint64) {
		h ^= v
		h *= 1099511628211
	}
	// flags are hashed by value whatever their type is (bool today; a refactoring to a
	// counter or a bit set must not break the build of the checks)
	b := func(x interface{}) uint64 {
		switch v := x.(type) {
		case bool:
			if v {
				return 1
			}
			return 0
		case int:
			return uint64(v)
		case int32:
			return uint64(v)
		case uint32:
			return uint64(v)
		case uint8:
			return uint64(v)
		}
		var hv uint64 = 1469598103934665603
		for _, c := range []byte(fmt.Sprint(x)) {
			hv = (hv ^ uint64(c)) * 1099511628211
		}
		return hv
	}
	add(uint64(t.w))
	add(uint64(t.h))
	add(uint64(t.cx + 2))
	add(uint64(t.cy + 2))
	add(uint64(t.cursorx + 2))
	add(uint64(t.cursory + 2))
	add(uint64(t.cursorStyle))
	add(uint64(t.cursorColor))
	add(uint64(t.mouseFlags))
	add(b(t.fini)<<0 | b(t.running)<<1 | b(t.clear)<<2 | b(t.pasteEnabled)<<3 | b(t.focusEnabled)<<4 | b(t.escaped)<<5 | b(t.buttondn)<<6 | uint64(t.buttonsdn)<<16 | b(t.buffering)<<7 | b(t.truecolor)<<8)
	add(uint64(len(t.colors)))
	add(uint64(len(t.fallback)))
	add(uint64(len(t.title)))
	add(uint64(t.style.fg) ^ uint64(t.style.bg)<<1 ^ uint64(t.style.attrs)<<2)
	add(uint64(t.cells.w)<<16 | uint64(t.cells.h))
	for i := range t.cells.cells {
		c := &t.cells.cells[i]
		add(uint64(c.currMain)<<32 | uint64(uint32(c.lastMain)))
		add(uint64(c.currStyle.fg) ^ uint64(c.currStyle.bg)<<7 ^ uint64(c.currStyle.attrs)<<13 ^ uint64(c.width)<<20 ^ b(c.lock)<<24 ^ uint64(len(c.currComb))<<25)
		add(uint64(c.lastStyle.fg) ^ uint64(c.lastStyle.bg)<<7 ^ uint64(c.lastStyle.attrs)<<13 ^ uint64(len(c.lastComb))<<25)
	}
	return h
}
