// Package seq is Engine A: explicit-state breadth-first search over operation histories of
// a sequential API. States are reached by replaying a history on a fresh instance of the
// real implementation (tcell objects cannot be cloned); two histories are merged only when
// their complete canonical keys (implementation state + reference state) are equal.
package seq

import (
	"fmt"

	"verif/hc"
)

// Sys is one fresh instance of implementation + reference model.
type Sys interface {
	// Apply performs operation op on both sides and checks the oracle. A non-empty
	// string describes a violation (sig is its stable class key).
	Apply(op int) (sig, desc string)
	// Key is the canonical state key: everything that can influence the future.
	Key() string
	// Close releases the instance.
	Close()
}

type Config struct {
	Name   string
	NOps   int
	OpName func(op int) string
	New    func() Sys
	Depth  int
	// Root selection for sharding: a history prefix of length 1 (or 2 when NOps is small)
	// is explored by this process only if Mine(index) is true.
	Mine func(i int) bool
	// ShardDepth is the depth at which successor indices are dealt to shards (default 1).
	// Shallower levels are explored identically by every shard and counted by shard 0 only.
	ShardDepth int
	Shard0     bool
	// Stop is polled; when it returns true the search ends early (not exhaustive).
	Stop func() bool
	// OnViolation receives each violation with the history that produced it.
	OnViolation func(sig, desc string, hist []int)
	// MaxViolationSigs stops expanding once this many distinct signatures were found.
	MaxViolationSigs int
}

type Stats struct {
	States            int64
	Transitions       int64
	MaxDepth          int
	FrontierExhausted bool // the reachable space closed before the depth bound
	Stopped           bool
	PerDepth          []int64
	SampleHist        [][]string
	ViolationSigs     map[string]int
}

func (c *Config) names(h []int) []string {
	out := make([]string, len(h))
	for i, o := range h {
		out[i] = c.OpName(o)
	}
	return out
}

// Build replays hist on a fresh instance; the oracle is evaluated on every step, and a
// violation during the prefix is reported too (it would also have been found at its depth).
func (c *Config) Build(hist []int) (Sys, string, string) {
	s := c.New()
	for _, op := range hist {
		if sig, desc := s.Apply(op); sig != "" {
			return s, sig, desc
		}
	}
	return s, "", ""
}

func Explore(c *Config) Stats {
	st := Stats{ViolationSigs: map[string]int{}}
	seen := map[string]struct{}{}
	init := c.New()
	seen[init.Key()] = struct{}{}
	init.Close()
	if c.Mine == nil || c.Shard0 {
		st.States = 1
	}
	frontier := [][]int{{}}
	rootIdx := 0
	shardDepth := c.ShardDepth
	if shardDepth < 1 {
		shardDepth = 1
	}
	for depth := 1; depth <= c.Depth; depth++ {
		var next [][]int
		var newCounted int64
		for _, hist := range frontier {
			if c.Stop != nil && c.Stop() {
				st.Stopped = true
				return st
			}
			for op := 0; op < c.NOps; op++ {
				counted := true
				if c.Mine != nil {
					if depth == shardDepth {
						rootIdx++
						if !c.Mine(rootIdx - 1) {
							continue
						}
					} else if depth < shardDepth {
						counted = c.Shard0
					}
				}
				s := c.New()
				bad := false
				for _, o := range hist {
					hc.Tick() // progress for the stall watchdog: a call into the code under test returned
					if sig, _ := s.Apply(o); sig != "" {
						bad = true // already reported at its own depth
						break
					}
				}
				if bad {
					s.Close()
					continue
				}
				sig, desc := s.Apply(op)
				hc.Tick()
				if counted {
					st.Transitions++
				}
				h2 := append(append(make([]int, 0, len(hist)+1), hist...), op)
				if sig != "" && !counted {
					s.Close()
					continue
				}
				if sig != "" {
					st.ViolationSigs[sig]++
					if c.OnViolation != nil && st.ViolationSigs[sig] <= 3 {
						c.OnViolation(sig, desc, h2)
					}
					s.Close()
					continue // do not explore beyond a violating state
				}
				k := s.Key()
				s.Close()
				if _, ok := seen[k]; ok {
					continue
				}
				seen[k] = struct{}{}
				if counted {
					st.States++
					newCounted++
				}
				if len(st.SampleHist) < 3 && depth >= 2 {
					st.SampleHist = append(st.SampleHist, c.names(h2))
				}
				next = append(next, h2)
			}
		}
		st.PerDepth = append(st.PerDepth, newCounted) // levels every shard explores are counted by shard 0 only
		if len(next) > 0 {
			st.MaxDepth = depth
		}
		frontier = next
		if len(frontier) == 0 {
			st.FrontierExhausted = true
			break
		}
		if c.MaxViolationSigs > 0 && len(st.ViolationSigs) >= c.MaxViolationSigs {
			break
		}
	}
	return st
}

func (s Stats) Summary() map[string]interface{} {
	return map[string]interface{}{
		"states": s.States, "transitions": s.Transitions, "max_depth": s.MaxDepth,
		"frontier_exhausted": s.FrontierExhausted, "new_states_per_depth": s.PerDepth,
		"stopped_early": s.Stopped,
	}
}

func Fmt(h []string) string { return fmt.Sprint(h) }
