// vcheck is the driver behind every command registered in MANIFEST.json.
//
//	vcheck C08 [--tier quick|thorough]   build the worker against /repo's working tree, run all
//	                                      shards, merge, write evidence/C08.json, print verdict
//	vcheck replay <file>                  re-run exactly one recorded counterexample
//
// Exit 0: property held on everything explored (KNOWN-FINDING lines may be printed).
// Exit 1: a "VIOLATION property=<id> replay=<path>" line was printed.
// Exit 2: the check itself is broken (build failure, nondeterminism, worker misbehaviour).
package main

import (
	"bytes"
	"crypto/sha1"
	"encoding/hex"
	"encoding/json"
	"fmt"
	"os"
	"os/exec"
	"path/filepath"
	"runtime"
	"sort"
	"strconv"
	"strings"
	"sync"
	"syscall"
	"time"

	"verif/hc"
)

var root = "/verif"

func repoKey() string {
	key := sha1.Sum([]byte(repoDir()))
	return hex.EncodeToString(key[:6])
}

func repoDir() string {
	if r := os.Getenv("VERIF_REPO"); r != "" {
		return r
	}
	return "/repo"
}

type spec struct {
	ID       string
	Pkg      string
	Level    string
	Race     bool
	Instr    bool   // build with the instrumented (scheduler) overlay
	Wasm     bool   // build for js/wasm and run under node
	ShardsQ  int
	ShardsT  int
	DeadQ    int // soft deadline per worker, seconds
	DeadT    int
	NeedsSim bool
	InstrFiles []instrSpec
	Args       []string // extra worker arguments
	Extra      []*spec  // further worker groups whose results are merged into this check
}

var specs = map[string]*spec{}

func reg(s *spec) { specs[s.ID] = s }

func init() {
	n := runtime.NumCPU()
	if n > 16 {
		n = 16
	}
	sinstr := []instrSpec{{File: "terminfo/terminfo.go", Time: true}, {File: "tscreen.go", Sched: true}, {File: "screen.go", Sched: true}, {File: "simulation.go", Sched: true},
		{File: "key.go", Time: true}, {File: "mouse.go", Time: true}, {File: "event.go", Time: true}, {File: "resize.go", Time: true}, {File: "interrupt.go", Time: true}, {File: "paste.go", Time: true}, {File: "focus.go", Time: true}, {File: "errors.go", Time: true}}
	reg(&spec{ID: "C10", Pkg: "./harness/conc", Level: "model_checking", Race: true, ShardsQ: n, ShardsT: n, DeadQ: 300, DeadT: 2400, Args: []string{"-prop", "C10"}, InstrFiles: sinstr})
	reg(&spec{ID: "C05", Pkg: "./harness/conc", Level: "model_checking", ShardsQ: n, ShardsT: n, DeadQ: 240, DeadT: 2400, Args: []string{"-prop", "C05"}, InstrFiles: sinstr})
	reg(&spec{ID: "C06", Pkg: "./harness/conc", Level: "model_checking", ShardsQ: n, ShardsT: n, DeadQ: 240, DeadT: 2400, Args: []string{"-prop", "C06"}, InstrFiles: sinstr})
	reg(&spec{ID: "C07", Pkg: "./harness/c07", Level: "exploration", ShardsQ: n, ShardsT: n, DeadQ: 240, DeadT: 1800})
	reg(&spec{ID: "C08", Pkg: "./harness/c08", Level: "model_checking", ShardsQ: n, ShardsT: n, DeadQ: 150, DeadT: 1500})
	tinfo := []instrSpec{{File: "terminfo/terminfo.go", Time: true}}
	reg(&spec{ID: "C01", Pkg: "./harness/draw", Level: "model_checking", ShardsQ: n, ShardsT: n, DeadQ: 240, DeadT: 2400, Args: []string{"-prop", "C01"}, InstrFiles: tinfo})
	reg(&spec{ID: "C04", Pkg: "./harness/c04", Level: "model_checking", ShardsQ: n, ShardsT: n, DeadQ: 240, DeadT: 2400, InstrFiles: tinfo})
	reg(&spec{ID: "C09", Pkg: "./harness/draw", Level: "exploration", ShardsQ: n, ShardsT: n, DeadQ: 240, DeadT: 2400, Args: []string{"-prop", "C09"}, InstrFiles: tinfo})
	reg(&spec{ID: "C13", Pkg: "./harness/draw", Level: "model_checking", ShardsQ: n, ShardsT: n, DeadQ: 240, DeadT: 2400, Args: []string{"-prop", "C13"}, InstrFiles: tinfo})
	reg(&spec{ID: "C02", Pkg: "./harness/c02", Level: "exploration", ShardsQ: n, ShardsT: n, DeadQ: 240, DeadT: 1800})
	reg(&spec{ID: "C03", Pkg: "./harness/c03", Level: "exploration", ShardsQ: n, ShardsT: n, DeadQ: 150, DeadT: 1500})
	reg(&spec{ID: "C11", Pkg: "./harness/c11", Level: "exploration", ShardsQ: n, ShardsT: n, DeadQ: 200, DeadT: 1500})
	reg(&spec{ID: "C12", Pkg: "./harness/c12", Level: "exploration", ShardsQ: n, ShardsT: n, DeadQ: 150, DeadT: 1500})
	reg(&spec{ID: "C14", Pkg: "./harness/c14", Level: "model_checking", ShardsQ: n, ShardsT: n, DeadQ: 240, DeadT: 1800})
	reg(&spec{ID: "C15", Pkg: "./harness/c15", Level: "exploration", ShardsQ: n, ShardsT: n, DeadQ: 240, DeadT: 1800,
		InstrFiles: []instrSpec{{File: "terminfo/terminfo.go", Time: true}}})
	reg(&spec{ID: "C17", Pkg: "./harness/c17", Level: "exploration", ShardsQ: n, ShardsT: n, DeadQ: 240, DeadT: 2400, InstrFiles: tinfo})
	reg(&spec{ID: "C18", Pkg: "./harness/c18", Level: "model_checking", ShardsQ: n, ShardsT: n, DeadQ: 240, DeadT: 2400})
	reg(&spec{ID: "C19", Pkg: "./harness/c19", Level: "model_checking", Wasm: true, ShardsQ: 8, ShardsT: n, DeadQ: 240, DeadT: 2400})
	reg(&spec{ID: "C20", Pkg: "./harness/c20", Level: "model_checking", ShardsQ: n, ShardsT: n, DeadQ: 240, DeadT: 1800})
	reg(&spec{ID: "C16", Pkg: "./harness/c16", Level: "exploration", ShardsQ: n, ShardsT: n, DeadQ: 150, DeadT: 1500})
	specs["C02"].Extra = []*spec{{ID: "C02", Pkg: "./harness/conc", Level: "exploration", ShardsQ: 5, ShardsT: 5, DeadQ: 240, DeadT: 2400, Args: []string{"-prop", "C02"}, InstrFiles: sinstr}}
	specs["C11"].Extra = []*spec{{ID: "C11", Pkg: "./harness/conc", Level: "exploration", ShardsQ: 4, ShardsT: 4, DeadQ: 240, DeadT: 2400, Args: []string{"-prop", "C11"}, InstrFiles: sinstr}}
	specs["C04"].Extra = []*spec{{ID: "C04", Pkg: "./harness/conc", Level: "model_checking", ShardsQ: n, ShardsT: n, DeadQ: 240, DeadT: 2400, Args: []string{"-prop", "C04"}, InstrFiles: sinstr}}
}

func env() []string {
	e := os.Environ()
	out := e[:0:0]
	for _, kv := range e {
		k := kv
		if i := strings.IndexByte(kv, '='); i >= 0 {
			k = kv[:i]
		}
		switch k {
		case "GOFLAGS", "GOPROXY", "GOSUMDB", "GOTOOLCHAIN", "GOCACHE", "GOOS", "GOARCH", "GOWORK":
			continue
		}
		out = append(out, kv)
	}
	out = append(out, "GOFLAGS=-mod=mod", "GOPROXY=off", "GOSUMDB=off", "GOTOOLCHAIN=local", "GOWORK=off",
		"GOCACHE="+filepath.Join(root, ".cache", "gocache"))
	return out
}

func die(code int, format string, a ...interface{}) {
	fmt.Fprintf(os.Stderr, format+"\n", a...)
	os.Exit(code)
}

// prepareBuild writes the alternate go.mod (replace => repo) and the overlay that adds the
// verif-tagged export files to the repository packages. Nothing in the repository is touched.
func prepareBuild(sp *spec) (modfile, overlay string) {
	repo := repoDir()
	key := sha1.Sum([]byte(repo))
	dir := filepath.Join(root, ".cache", "build", hex.EncodeToString(key[:6]))
	os.MkdirAll(dir, 0o755)
	mod, err := os.ReadFile(filepath.Join(root, "go.mod"))
	if err != nil {
		die(2, "BROKEN: %v", err)
	}
	mod = bytes.Replace(mod, []byte("=> /repo"), []byte("=> "+repo), 1)
	modfile = filepath.Join(dir, "go.mod")
	os.WriteFile(modfile, mod, 0o644)
	sum, _ := os.ReadFile(filepath.Join(root, "go.sum"))
	os.WriteFile(filepath.Join(dir, "go.sum"), sum, 0o644)

	repl := map[string]string{}
	add := func(src, dst string) {
		if _, err := os.Stat(filepath.Join(root, src)); err == nil {
			repl[filepath.Join(repo, dst)] = filepath.Join(root, src)
		}
	}
	add("export/tcell_export.go", "zz_verif_export.go")
	add("export/tcell_export_native.go", "zz_verif_export_native.go")
	add("export/tcell_export_wasm.go", "zz_verif_export_wasm.go")
	add("export/terminfo_export.go", "terminfo/zz_verif_export.go")
	add("export/views_export.go", "views/zz_verif_export.go")
	if len(sp.InstrFiles) > 0 {
		instrument(sp, repo, dir, repl)
	}
	ob, _ := json.MarshalIndent(map[string]interface{}{"Replace": repl}, "", " ")
	overlay = filepath.Join(dir, "overlay-"+sp.ID+"-"+filepath.Base(sp.Pkg)+".json")
	os.WriteFile(overlay, ob, 0o644)
	return
}

func build(sp *spec) string {
	if sp.Wasm {
		// the build obligation of C19: the package itself (no overlay, no tags) must compile
		// for js/wasm from the current tree
		cmd := exec.Command("go", "build", ".")
		cmd.Dir = repoDir()
		cmd.Env = append(env(), "GOOS=js", "GOARCH=wasm")
		if out, err := cmd.CombinedOutput(); err != nil {
			v := hc.Violation{Property: sp.ID, Signature: "wasm-build", Desc: "GOOS=js GOARCH=wasm go build of the package fails:\n" + string(out), Replay: map[string]string{"compiler_output": string(out)}}
			path := writeReplay(sp.ID, v)
			fmt.Printf("VIOLATION property=%s replay=%s\n  the package does not compile for js/wasm:\n%s\n", sp.ID, path, firstLines(string(out), 12))
			os.Exit(1)
		}
	}
	modfile, overlay := prepareBuild(sp)
	bin := filepath.Join(root, ".cache", "bin", repoKey(), sp.ID+"-"+filepath.Base(sp.Pkg))
	os.MkdirAll(filepath.Dir(bin), 0o755)
	args := []string{"build", "-tags", "verif", "-overlay", overlay, "-modfile", modfile, "-o", bin}
	if sp.Race {
		args = append(args, "-race")
	}
	args = append(args, sp.Pkg)
	cmd := exec.Command("go", args...)
	cmd.Dir = root
	cmd.Env = env()
	if sp.Wasm {
		cmd.Env = append(cmd.Env, "GOOS=js", "GOARCH=wasm")
	}
	out, err := cmd.CombinedOutput()
	if err != nil {
		if sp.Wasm && bytes.Contains(out, []byte("github.com/gdamore/tcell/v2")) && !bytes.Contains(out, []byte("verif/")) {
			// the build obligation of C19: the package must compile for js/wasm
			v := hc.Violation{Property: sp.ID, Signature: "wasm-build", Desc: "GOOS=js GOARCH=wasm build of the package fails:\n" + string(out), Replay: map[string]string{"compiler_output": string(out)}}
			path := writeReplay(sp.ID, v)
			fmt.Printf("VIOLATION property=%s replay=%s\n  the package does not compile for js/wasm:\n%s\n", sp.ID, path, firstLines(string(out), 12))
			os.Exit(1)
		}
		fmt.Printf("BROKEN: build of %s against %s failed:\n%s\n", sp.Pkg, repoDir(), out)
		os.Exit(2)
	}
	return bin
}

type knownFile struct {
	Findings []struct {
		Property    string `json:"property"`
		Signature   string `json:"signature"`
		Description string `json:"description"`
	} `json:"findings"`
	Fixed []string `json:"fixed"`
}

func loadKnown() knownFile {
	var k knownFile
	b, err := os.ReadFile(filepath.Join(root, "known_findings.json"))
	if err == nil {
		if err := json.Unmarshal(b, &k); err != nil {
			die(2, "BROKEN: known_findings.json: %v", err)
		}
	}
	return k
}

func tierFromArgs(args []string) string {
	tier := os.Getenv("VERIF_TIER")
	for i, a := range args {
		if a == "--tier" && i+1 < len(args) {
			tier = args[i+1]
		}
		if strings.HasPrefix(a, "--tier=") {
			tier = strings.TrimPrefix(a, "--tier=")
		}
	}
	if tier != "thorough" {
		tier = "quick"
	}
	return tier
}

func main() {
	if r := os.Getenv("VERIF_ROOT"); r != "" {
		root = r
	}
	if len(os.Args) < 2 {
		die(2, "usage: vcheck <property> [--tier quick|thorough] | replay <file> | list")
	}
	switch os.Args[1] {
	case "replay":
		if len(os.Args) < 3 {
			die(2, "usage: vcheck replay <file>")
		}
		replay(os.Args[2])
		return
	case "list":
		ids := []string{}
		for id := range specs {
			ids = append(ids, id)
		}
		sort.Strings(ids)
		fmt.Println(strings.Join(ids, " "))
		return
	case "prebuild":
		ids := []string{}
		for id := range specs {
			ids = append(ids, id)
		}
		sort.Strings(ids)
		for _, id := range ids {
			build(specs[id])
			fmt.Println("built", id)
		}
		return
	case "selftest":
		selftest(os.Args[2:])
		return
	}
	id := os.Args[1]
	sp, ok := specs[id]
	if !ok {
		die(2, "unknown property %s", id)
	}
	os.Exit(runCheck(sp, tierFromArgs(os.Args[2:]), os.Args[2:]))
}

func hasFlag(args []string, f string) (string, bool) {
	for i, a := range args {
		if a == f && i+1 < len(args) {
			return args[i+1], true
		}
	}
	return "", false
}

func runCheck(sp *spec, tier string, extra []string) int {
	start := time.Now()
	seed, _ := strconv.ParseInt(os.Getenv("VERIF_SEED"), 10, 64)
	bin := build(sp)
	n, dead := sp.ShardsQ, sp.DeadQ
	if tier == "thorough" {
		n, dead = sp.ShardsT, sp.DeadT
	}
	if n < 1 {
		n = 1
	}
	if d, ok := hasFlag(extra, "--deadline"); ok {
		dead, _ = strconv.Atoi(d)
	}
	only, _ := hasFlag(extra, "--only")
	tmp := filepath.Join(root, ".cache", "run", repoKey(), sp.ID+"-"+tier)
	os.RemoveAll(tmp)
	os.MkdirAll(tmp, 0o755)

	results, crashes := runWorkers(sp, bin, tier, n, dead, only, tmp)
	for xi, ex := range sp.Extra {
		xbin := build(ex)
		xn, xdead := ex.ShardsQ, ex.DeadQ
		if tier == "thorough" {
			xn, xdead = ex.ShardsT, ex.DeadT
		}
		xtmp := filepath.Join(tmp, fmt.Sprintf("extra%d", xi))
		os.MkdirAll(xtmp, 0o755)
		r2, c2 := runWorkers(ex, xbin, tier, xn, xdead, only, xtmp)
		results = append(results, r2...)
		crashes = append(crashes, c2...)
	}

	// merge
	var m hc.Result
	m.Property = sp.ID
	m.Tier = tier
	m.Exhaustive = true
	m.Counters = map[string]int64{}
	m.Scenarios = map[string]interface{}{}
	distinct := map[uint64]struct{}{}
	var distinctOverflow int64
	for i, r := range results {
		if r == nil {
			if crashes[i] == "" {
				crashes[i] = fmt.Sprintf("shard %d produced no result", i)
			}
			continue
		}
		m.Evaluations += r.Evaluations
		m.States += r.States
		m.Transitions += r.Transitions
		m.Executions += r.Executions
		m.Exhaustive = m.Exhaustive && r.Exhaustive
		if int64(len(r.DistinctKeys)) < r.DistinctN {
			distinctOverflow += r.DistinctN - int64(len(r.DistinctKeys))
		}
		for _, k := range r.DistinctKeys {
			distinct[k] = struct{}{}
		}
		if len(m.Samples) < 8 {
			for _, s := range r.Samples {
				if len(m.Samples) < 8 {
					m.Samples = append(m.Samples, s)
				}
			}
		}
		m.Violations = append(m.Violations, r.Violations...)
		for _, nt := range r.Notes {
			dup := false
			for _, x := range m.Notes {
				if x == nt {
					dup = true
				}
			}
			if !dup {
				m.Notes = append(m.Notes, nt)
			}
		}
		for k, v := range r.Counters {
			m.Counters[k] += v
		}
		for k, v := range r.Scenarios {
			if old, ok := m.Scenarios[k]; !ok {
				m.Scenarios[k] = v
			} else {
				mergeScenario(old, v)
			}
		}
		if r.Rule != "" {
			m.Rule = r.Rule
		}
		if len(r.Assumptions) > 0 {
			m.Assumptions = r.Assumptions
		}
	}
	m.DistinctN = int64(len(distinct)) + distinctOverflow

	// verdicts
	known := loadKnown()
	exit := 0
	seenSig := map[string]bool{}
	var sigs []string
	bySig := map[string]hc.Violation{}
	for _, v := range m.Violations {
		if !seenSig[v.Signature] {
			seenSig[v.Signature] = true
			sigs = append(sigs, v.Signature)
			bySig[v.Signature] = v
		}
	}
	sort.Strings(sigs)
	nviol := 0
	printed := 0
	for _, sig := range sigs {
		v := bySig[sig]
		isKnown := false
		for _, k := range known.Findings {
			if k.Property == sp.ID && k.Signature == sig {
				fmt.Printf("KNOWN-FINDING: property=%s %s [%s]\n", sp.ID, k.Description, sig)
				isKnown = true
				break
			}
		}
		if isKnown {
			m.Counters["known_findings_matched"]++
			continue
		}
		nviol++
		exit = 1
		if printed < 20 {
			path := writeReplay(sp.ID, v)
			fmt.Printf("VIOLATION property=%s replay=%s\n", sp.ID, path)
			fmt.Printf("  signature: %s\n  %s\n", v.Signature, strings.ReplaceAll(v.Desc, "\n", "\n  "))
			printed++
		}
	}
	broken := false
	for i, c := range crashes {
		if c == "" {
			continue
		}
		// A worker that died is never silently ignored. A Go panic / fatal error inside the
		// code under test is a violation (the harnesses recover what they can); anything
		// else is a broken check.
		if strings.Contains(c, "panic:") || strings.Contains(c, "fatal error:") || strings.Contains(c, "signal: killed") || strings.Contains(c, "SIGQUIT") {
			v := hc.Violation{Property: sp.ID, Signature: "worker-crash", Desc: c, Replay: map[string]interface{}{"shard": i, "stderr": c}}
			path := writeReplay(sp.ID, v)
			fmt.Printf("VIOLATION property=%s replay=%s\n  worker crashed: %s\n", sp.ID, path, firstLines(c, 12))
			exit = 1
			nviol++
		} else {
			fmt.Printf("BROKEN: %s\n", firstLines(c, 30))
			broken = true
		}
	}
	m.WallS = time.Since(start).Seconds()
	writeEvidence(sp, &m, seed, nviol)
	status := "OK"
	if exit == 1 {
		status = "VIOLATED"
	}
	fmt.Printf("%s %s tier=%s evaluations=%d states=%d transitions=%d executions=%d distinct=%d exhaustive=%v violations=%d wall=%.1fs\n",
		sp.ID, status, tier, m.Evaluations, m.States, m.Transitions, m.Executions, m.DistinctN, m.Exhaustive, nviol, m.WallS)
	for _, nt := range m.Notes {
		fmt.Printf("  note: %s\n", nt)
	}
	if broken && exit == 0 {
		return 2
	}
	return exit
}

func runWorkers(sp *spec, bin, tier string, n, dead int, only, tmp string) ([]*hc.Result, []string) {
	results := make([]*hc.Result, n)
	crashes := make([]string, n)
	var wg sync.WaitGroup
	for i := 0; i < n; i++ {
		wg.Add(1)
		go func(i int) {
			defer wg.Done()
			out := filepath.Join(tmp, fmt.Sprintf("shard%d.json", i))
			args := []string{"-tier", tier, "-shard", strconv.Itoa(i), "-nshards", strconv.Itoa(n), "-out", out, "-deadline", strconv.Itoa(dead)}
			if only != "" {
				args = append(args, "-only", only)
			}
			args = append(args, sp.Args...)
			cmd := workerCmd(sp, bin, args)
			var stderr bytes.Buffer
			cmd.Stderr = &stderr
			cmd.Stdout = &stderr
			// hard stop: a worker that overruns its soft deadline by far is spinning or
			// deadlocked inside the code under test; it is killed and reported
			hard := time.AfterFunc(time.Duration(2*dead+180)*time.Second, func() {
				if cmd.Process != nil {
					cmd.Process.Signal(syscall.SIGQUIT)
					time.Sleep(2 * time.Second)
					cmd.Process.Kill()
				}
			})
			err := cmd.Run()
			hard.Stop()
			if err != nil {
				s := stderr.String()
				if len(s) > 6000 {
					s = s[:3000] + "\n...\n" + s[len(s)-3000:]
				}
				crashes[i] = fmt.Sprintf("shard %d: %v\n%s", i, err, s)
				os.WriteFile(filepath.Join(tmp, fmt.Sprintf("shard%d.stderr", i)), stderr.Bytes(), 0o644)
			}
			b, err := os.ReadFile(out)
			if err == nil {
				var r hc.Result
				if json.Unmarshal(b, &r) == nil {
					results[i] = &r
					if sp.Race {
						r.Violations = append(r.Violations, raceReports(sp.ID, stderr.String())...)
					}
				}
			}
			if results[i] != nil && stderr.Len() > 0 && crashes[i] == "" {
				os.WriteFile(filepath.Join(tmp, fmt.Sprintf("shard%d.stderr", i)), stderr.Bytes(), 0o644)
			}
		}(i)
	}
	wg.Wait()

	return results, crashes
}

func firstLines(s string, n int) string {
	l := strings.Split(s, "\n")
	if len(l) > n {
		l = l[:n]
	}
	return strings.Join(l, "\n")
}

func workerCmd(sp *spec, bin string, args []string) *exec.Cmd {
	var cmd *exec.Cmd
	if sp.Wasm {
		goroot, _ := exec.Command("go", "env", "GOROOT").Output()
		js := filepath.Join(strings.TrimSpace(string(goroot)), "misc", "wasm", "wasm_exec_node.js")
		cmd = exec.Command("/usr/bin/nodejs", append([]string{js, bin}, args...)...)
	} else {
		cmd = exec.Command(bin, args...)
	}
	cmd.Dir = root
	cmd.Env = append(os.Environ(), "VERIF_REPO_DIR="+repoDir(), "VERIF_ROOT_DIR="+root)
	if sp.Race {
		cmd.Env = append(cmd.Env, "GORACE=exitcode=0 history_size=2")
	}
	if os.Getenv("GOMAXPROCS") == "" && !sp.Race {
		// one shard per core: a single P per worker avoids cross-shard scheduler contention
		cmd.Env = append(cmd.Env, "GOMAXPROCS=1")
	}
	return cmd
}

func writeReplay(id string, v hc.Violation) string {
	b, _ := json.MarshalIndent(v, "", " ")
	h := sha1.Sum([]byte(v.Signature))
	dir := filepath.Join(root, "replays", id)
	if os.Getenv("VERIF_NOEVIDENCE") != "" {
		dir = filepath.Join(root, ".cache", "replays-selftest", id)
	}
	os.MkdirAll(dir, 0o755)
	path := filepath.Join(dir, hex.EncodeToString(h[:5])+".json")
	os.WriteFile(path, b, 0o644)
	return path
}

func writeEvidence(sp *spec, m *hc.Result, seed int64, nviol int) {
	if os.Getenv("VERIF_NOEVIDENCE") != "" {
		return // self-test runs against scratch worktrees must not overwrite evidence
	}
	cov := map[string]interface{}{}
	evals := m.Evaluations
	if evals == 0 {
		evals = m.Transitions
	}
	if evals == 0 {
		evals = m.Executions
	}
	cov["evaluations"] = evals
	cov["distinct_nontrivial"] = m.DistinctN
	cov["rule"] = m.Rule
	samples := m.Samples
	if samples == nil {
		samples = []interface{}{}
	}
	cov["samples"] = samples
	cov["exhaustive"] = m.Exhaustive
	if m.States > 0 || m.Transitions > 0 || m.Executions > 0 {
		cov["states"] = m.States
		cov["transitions"] = m.Transitions
		tv := m.Executions
		if tv == 0 {
			tv = m.Transitions
		}
		// every explored trace is an execution of the implementation itself
		cov["traces_validated_against_impl"] = tv
		cov["executions"] = m.Executions
	}
	if len(m.Scenarios) > 0 {
		cov["scenarios"] = m.Scenarios
	}
	if len(m.Counters) > 0 {
		cov["counters"] = m.Counters
	}
	if len(m.Notes) > 0 {
		cov["notes"] = m.Notes
	}
	ev := map[string]interface{}{
		"property_id": sp.ID,
		"tier":        m.Tier,
		"seed":        seed,
		"level":       sp.Level,
		"coverage":    cov,
		"assumptions": m.Assumptions,
		"wall_s":      m.WallS,
		"violations":  nviol,
	}
	if m.Assumptions == nil {
		ev["assumptions"] = []string{}
	}
	b, _ := json.MarshalIndent(ev, "", " ")
	os.MkdirAll(filepath.Join(root, "evidence"), 0o755)
	if err := os.WriteFile(filepath.Join(root, "evidence", sp.ID+".json"), append(b, '\n'), 0o644); err != nil {
		die(2, "BROKEN: cannot write evidence: %v", err)
	}
}

func replay(path string) {
	b, err := os.ReadFile(path)
	if err != nil {
		die(2, "%v", err)
	}
	var v hc.Violation
	if err := json.Unmarshal(b, &v); err != nil {
		die(2, "%v", err)
	}
	sp, ok := specs[v.Property]
	if !ok {
		die(2, "unknown property %q in replay file", v.Property)
	}
	bin := build(sp)
	abs, _ := filepath.Abs(path)
	cmd := workerCmd(sp, bin, append([]string{"-replay", abs}, sp.Args...))
	cmd.Stdout = os.Stdout
	cmd.Stderr = os.Stderr
	if err := cmd.Run(); err != nil {
		if ee, ok := err.(*exec.ExitError); ok {
			os.Exit(ee.ExitCode())
		}
		die(2, "%v", err)
	}
}


// raceReports turns ThreadSanitizer reports in a worker's stderr into violations, keyed by
// the pair of tcell functions at the two access sites.
func raceReports(id, stderr string) []hc.Violation {
	var out []hc.Violation
	seen := map[string]bool{}
	lastExec := ""
	blocks := strings.Split(stderr, "WARNING: DATA RACE")
	for bi, blk := range blocks {
		if bi > 0 {
			end := strings.Index(blk, "==================")
			body := blk
			if end >= 0 {
				body = blk[:end]
			}
			var sites []string
			for _, part := range strings.Split(body, "\n\n") {
				p := strings.TrimSpace(part)
				if !(strings.HasPrefix(p, "Write at") || strings.HasPrefix(p, "Read at") || strings.HasPrefix(p, "Previous write at") || strings.HasPrefix(p, "Previous read at")) {
					continue
				}
				site := "?"
				for _, line := range strings.Split(p, "\n")[1:] {
					l := strings.TrimSpace(line)
					if l == "" || strings.HasPrefix(l, "/") || strings.HasPrefix(l, "runtime.") || strings.HasPrefix(l, "sync.") || strings.HasPrefix(l, "sync/atomic.") {
						continue // file:line lines and runtime/sync internals under the access
					}
					// the first frame that is not runtime/sync decides who made the access
					if strings.HasPrefix(l, "github.com/gdamore/tcell/v2.") && !strings.HasPrefix(l, "github.com/gdamore/tcell/v2.Verif") {
						f := strings.TrimPrefix(l, "github.com/gdamore/tcell/v2.")
						f = strings.NewReplacer("(*", "", ")", "").Replace(f)
						if i := strings.LastIndex(f, "("); i > 0 {
							f = f[:i]
						}
						site = f
					} else if strings.HasPrefix(l, "github.com/gdamore/tcell/v2/terminfo.") {
						site = "terminfo." + strings.TrimSuffix(strings.TrimPrefix(l, "github.com/gdamore/tcell/v2/terminfo."), "()")
					} else if strings.HasPrefix(l, "main.apiOps.") {
						// the application's own code touching what an API call handed out (a slice
						// or map that aliases the screen's internal state)
						site = "application(result of an API call)"
					} else if strings.HasPrefix(l, "main.(*stty).Write") || strings.HasPrefix(l, "main.(*stty).Read") {
						continue // the fake terminal reading the bytes handed to Tty.Write / filling the buffer handed to Tty.Read: the caller decides
					} else if !(strings.HasPrefix(l, "main.") || strings.HasPrefix(l, "verif/") || strings.Contains(l, "/verifrt.") || strings.Contains(l, "/vsync.") || strings.Contains(l, "/vtime.") || strings.HasPrefix(l, "github.com/gdamore/tcell/v2.Verif")) {
						// an access inside a library the screen calls (x/text encoder, bytes.Buffer,
						// runewidth ...): the tcell function that made the call decides
						continue
					}
					break
				}
				sites = append(sites, site)
			}
			if len(sites) >= 2 && sites[0] != "?" && sites[1] != "?" {
				a, b := sites[0], sites[1]
				if a > b {
					a, b = b, a
				}
				sig := "race:" + a + "|" + b
				if !seen[sig] {
					seen[sig] = true
					if len(body) > 2500 {
						body = body[:2500] + "..."
					}
					out = append(out, hc.Violation{Property: id, Signature: sig, Desc: fmt.Sprintf("data race between %s and %s (first seen while running %s)\n%s", a, b, lastExec, strings.TrimSpace(body)), Replay: map[string]string{"exec": lastExec}})
				}
			}
		}
		if i := strings.LastIndex(blk, "EXEC "); i >= 0 {
			rest := blk[i+5:]
			if j := strings.IndexByte(rest, '\n'); j >= 0 {
				lastExec = rest[:j]
			}
		}
	}
	return out
}

// mergeScenario folds another shard's breadth-first summary of the same scenario into the one
// already recorded: shards own disjoint level-2 subtrees, so counts add up, the search is
// exhausted only if every shard's slice was, and it was cut short if any shard's was.
func mergeScenario(dst, src interface{}) {
	d, ok1 := dst.(map[string]interface{})
	s, ok2 := src.(map[string]interface{})
	if !ok1 || !ok2 {
		return
	}
	dp, ok1 := d["new_states_per_depth"].([]interface{})
	sp, ok2 := s["new_states_per_depth"].([]interface{})
	if !ok1 || !ok2 {
		return
	}
	num := func(x interface{}) float64 { f, _ := x.(float64); return f }
	for _, k := range []string{"states", "transitions"} {
		d[k] = num(d[k]) + num(s[k])
	}
	if num(s["max_depth"]) > num(d["max_depth"]) {
		d["max_depth"] = s["max_depth"]
	}
	for i, x := range sp {
		if i < len(dp) {
			dp[i] = num(dp[i]) + num(x)
		} else {
			dp = append(dp, x)
		}
	}
	d["new_states_per_depth"] = dp
	if a, ok := d["frontier_exhausted"].(bool); ok {
		b, _ := s["frontier_exhausted"].(bool)
		d["frontier_exhausted"] = a && b
	}
	if a, ok := d["stopped_early"].(bool); ok {
		b, _ := s["stopped_early"].(bool)
		d["stopped_early"] = a || b
	}
}
