package main

import (
	"fmt"
	"go/ast"
	"go/token"
	"strconv"
)

// schedRewrite instruments one file for the controlled scheduler (see DESIGN.md 1.3):
// sync -> vsync, time -> vtime, go statements, channel sends/receives/closes and select
// statements get scheduler hooks; the real operations are kept.
func schedRewrite(fset *token.FileSet, f *ast.File) error {
	renameImport(f, "sync", rtImport+"/vsync", "sync")
	renameImport(f, "time", rtImport+"/vtime", "time")
	r := &rewriter{}
	for _, d := range f.Decls {
		if fd, ok := d.(*ast.FuncDecl); ok && fd.Body != nil {
			fd.Body.List = r.list(fd.Body.List)
		}
	}
	if r.err != nil {
		return r.err
	}
	if r.used {
		addImport(f, rtImport, "verifrt")
	}
	return nil
}

func addImport(f *ast.File, path, name string) {
	spec := &ast.ImportSpec{Name: ast.NewIdent(name), Path: &ast.BasicLit{Kind: token.STRING, Value: strconv.Quote(path)}}
	decl := &ast.GenDecl{Tok: token.IMPORT, Specs: []ast.Spec{spec}}
	f.Decls = append([]ast.Decl{decl}, f.Decls...)
	f.Imports = append(f.Imports, spec)
}

type rewriter struct {
	err  error
	used bool
}

func (r *rewriter) fail(format string, a ...interface{}) {
	if r.err == nil {
		r.err = fmt.Errorf(format, a...)
	}
}

func (r *rewriter) hook(name string, args ...ast.Expr) *ast.CallExpr {
	r.used = true
	return &ast.CallExpr{Fun: &ast.SelectorExpr{X: ast.NewIdent("verifrt"), Sel: ast.NewIdent(name)}, Args: args}
}

func (r *rewriter) hookStmt(name string, args ...ast.Expr) ast.Stmt {
	return &ast.ExprStmt{X: r.hook(name, args...)}
}

// simple reports whether evaluating e twice is harmless (identifier, selector chain, or a
// parameterless method call on such).
func simple(e ast.Expr) bool {
	switch x := e.(type) {
	case *ast.Ident:
		return true
	case *ast.SelectorExpr:
		return simple(x.X)
	case *ast.CallExpr:
		return len(x.Args) == 0 && simple(x.Fun)
	case *ast.ParenExpr:
		return simple(x.X)
	}
	return false
}

// funcLits rewrites the bodies of function literals inside an expression or statement.
func (r *rewriter) funcLits(n ast.Node) {
	if n == nil {
		return
	}
	ast.Inspect(n, func(x ast.Node) bool {
		if fl, ok := x.(*ast.FuncLit); ok {
			fl.Body.List = r.list(fl.Body.List)
			return false
		}
		return true
	})
}

func recvOf(e ast.Expr) (ast.Expr, bool) {
	if p, ok := e.(*ast.ParenExpr); ok {
		return recvOf(p.X)
	}
	if u, ok := e.(*ast.UnaryExpr); ok && u.Op == token.ARROW {
		return u.X, true
	}
	return nil, false
}

func (r *rewriter) list(in []ast.Stmt) []ast.Stmt {
	var out []ast.Stmt
	for _, st := range in {
		out = append(out, r.stmt(st)...)
	}
	return out
}

func (r *rewriter) block(b *ast.BlockStmt) {
	if b != nil {
		b.List = r.list(b.List)
	}
}

// stmt returns the replacement statements for st.
func (r *rewriter) stmt(st ast.Stmt) []ast.Stmt {
	switch s := st.(type) {
	case *ast.BlockStmt:
		r.block(s)
	case *ast.IfStmt:
		r.funcLits(s.Cond)
		r.block(s.Body)
		if s.Else != nil {
			e := r.stmt(s.Else)
			if len(e) == 1 {
				s.Else = e[0]
			} else {
				s.Else = &ast.BlockStmt{List: e}
			}
		}
	case *ast.ForStmt:
		r.block(s.Body)
	case *ast.RangeStmt:
		r.block(s.Body)
	case *ast.SwitchStmt:
		for _, c := range s.Body.List {
			cc := c.(*ast.CaseClause)
			cc.Body = r.list(cc.Body)
		}
	case *ast.TypeSwitchStmt:
		for _, c := range s.Body.List {
			cc := c.(*ast.CaseClause)
			cc.Body = r.list(cc.Body)
		}
	case *ast.LabeledStmt:
		inner := r.stmt(s.Stmt)
		if len(inner) == 1 {
			s.Stmt = inner[0]
		} else {
			// hooks go in front of the label's statement, inside a block would change
			// break/continue targets: keep the label on the last (real) statement
			s.Stmt = inner[len(inner)-1]
			return append(inner[:len(inner)-1], s)
		}
	case *ast.GoStmt:
		for _, a := range s.Call.Args {
			if !simple(a) {
				if _, ok := a.(*ast.BasicLit); !ok {
					r.fail("go statement with a non-trivial argument at %v", s.Pos())
				}
			}
		}
		r.funcLits(s.Call)
		fn := &ast.FuncLit{Type: &ast.FuncType{Params: &ast.FieldList{}}, Body: &ast.BlockStmt{List: []ast.Stmt{&ast.ExprStmt{X: s.Call}}}}
		return []ast.Stmt{r.hookStmt("Go", fn)}
	case *ast.SendStmt:
		if !simple(s.Chan) {
			r.fail("send on a non-trivial channel expression at %v", s.Pos())
		}
		r.funcLits(s.Value)
		return []ast.Stmt{r.hookStmt("BeforeSend", s.Chan), s}
	case *ast.DeferStmt:
		if id, ok := s.Call.Fun.(*ast.Ident); ok && id.Name == "close" && len(s.Call.Args) == 1 {
			body := []ast.Stmt{r.hookStmt("BeforeClose", s.Call.Args[0]), &ast.ExprStmt{X: s.Call}}
			s.Call = &ast.CallExpr{Fun: &ast.FuncLit{Type: &ast.FuncType{Params: &ast.FieldList{}}, Body: &ast.BlockStmt{List: body}}}
			return []ast.Stmt{s}
		}
		r.funcLits(s.Call)
	case *ast.ExprStmt:
		if ch, ok := recvOf(s.X); ok {
			if !simple(ch) {
				r.fail("receive from a non-trivial channel expression at %v", s.Pos())
			}
			return []ast.Stmt{r.hookStmt("BeforeRecv", ch), s}
		}
		if c, ok := s.X.(*ast.CallExpr); ok {
			if id, ok := c.Fun.(*ast.Ident); ok && id.Name == "close" && len(c.Args) == 1 {
				return []ast.Stmt{r.hookStmt("BeforeClose", c.Args[0]), s}
			}
		}
		r.funcLits(s.X)
	case *ast.AssignStmt:
		if len(s.Rhs) == 1 {
			if ch, ok := recvOf(s.Rhs[0]); ok {
				if !simple(ch) {
					r.fail("receive from a non-trivial channel expression at %v", s.Pos())
				}
				return []ast.Stmt{r.hookStmt("BeforeRecv", ch), s}
			}
		}
		for _, e := range s.Rhs {
			r.funcLits(e)
		}
	case *ast.ReturnStmt:
		for _, e := range s.Results {
			if _, ok := recvOf(e); ok {
				r.fail("receive inside a return statement at %v", s.Pos())
			}
			r.funcLits(e)
		}
	case *ast.DeclStmt:
		r.funcLits(s)
	case *ast.SelectStmt:
		return []ast.Stmt{r.selectStmt(s)}
	}
	return []ast.Stmt{st}
}

func intLit(n int) ast.Expr {
	if n < 0 {
		return &ast.UnaryExpr{Op: token.SUB, X: &ast.BasicLit{Kind: token.INT, Value: strconv.Itoa(-n)}}
	}
	return &ast.BasicLit{Kind: token.INT, Value: strconv.Itoa(n)}
}

func (r *rewriter) selectStmt(s *ast.SelectStmt) ast.Stmt {
	var args []ast.Expr
	hasDefault := false
	var clauses []ast.Stmt
	idx := 0
	for _, c := range s.Body.List {
		cc := c.(*ast.CommClause)
		body := r.list(cc.Body)
		if cc.Comm == nil {
			hasDefault = true
			clauses = append(clauses, &ast.CaseClause{List: []ast.Expr{intLit(-1)}, Body: body})
			continue
		}
		var ch ast.Expr
		send := false
		switch m := cc.Comm.(type) {
		case *ast.SendStmt:
			ch, send = m.Chan, true
			r.funcLits(m.Value)
		case *ast.ExprStmt:
			x, ok := recvOf(m.X)
			if !ok {
				r.fail("unsupported select communication at %v", m.Pos())
				return s
			}
			ch = x
		case *ast.AssignStmt:
			x, ok := recvOf(m.Rhs[0])
			if !ok {
				r.fail("unsupported select communication at %v", m.Pos())
				return s
			}
			ch = x
		}
		if !simple(ch) {
			r.fail("select on a non-trivial channel expression at %v", cc.Pos())
			return s
		}
		name := "R"
		if send {
			name = "S"
		}
		args = append(args, r.hook(name, ch))
		clauses = append(clauses, &ast.CaseClause{List: []ast.Expr{intLit(idx)}, Body: append([]ast.Stmt{cc.Comm}, body...)})
		idx++
	}
	clauses = append(clauses, &ast.CaseClause{Body: []ast.Stmt{&ast.ExprStmt{X: &ast.CallExpr{Fun: ast.NewIdent("panic"), Args: []ast.Expr{&ast.BasicLit{Kind: token.STRING, Value: strconv.Quote("verifrt: select granted an arm that does not exist")}}}}}})
	def := ast.NewIdent("false")
	if hasDefault {
		def = ast.NewIdent("true")
	}
	return &ast.SwitchStmt{Tag: r.hook("Select", append([]ast.Expr{def}, args...)...), Body: &ast.BlockStmt{List: clauses}}
}
