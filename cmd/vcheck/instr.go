package main

import (
	"bytes"
	"fmt"
	"go/ast"
	"go/parser"
	"go/printer"
	"go/token"
	"os"
	"path/filepath"
	"strconv"
)

const rtImport = "github.com/gdamore/tcell/v2/verifrt"

// instrSpec says which source files of the repository are replaced by rewritten copies
// (through the overlay; the repository itself is never modified) and how.
type instrSpec struct {
	File  string // path relative to the repository root
	Time  bool   // import "time" -> verifrt/vtime (virtual clock, sleeps, timers)
	Sched bool   // scheduler hooks: sync -> vsync, go statements, channel operations, select
}

// instrument parses the current working-tree version of each file, rewrites it and adds
// the result plus the virtual runtime packages to the overlay. Any construct the rewriter
// does not understand is a hard error (the check is reported as broken, never as a pass).
func instrument(sp *spec, repo, dir string, repl map[string]string) {
	outdir := filepath.Join(dir, "instr-"+sp.ID+"-"+filepath.Base(sp.Pkg))
	os.RemoveAll(outdir)
	os.MkdirAll(outdir, 0o755)
	for _, is := range sp.InstrFiles {
		src := filepath.Join(repo, is.File)
		fset := token.NewFileSet()
		f, err := parser.ParseFile(fset, src, nil, parser.ParseComments)
		if err != nil {
			fmt.Printf("BROKEN: cannot parse %s: %v\n", src, err)
			os.Exit(2)
		}
		if is.Time {
			renameImport(f, "time", rtImport+"/vtime", "time")
		}
		if is.Sched {
			if err := schedRewrite(fset, f); err != nil {
				fmt.Printf("BROKEN: instrumentation of %s failed: %v\n", src, err)
				os.Exit(2)
			}
		}
		var buf bytes.Buffer
		if is.Sched {
			// rewritten syntax trees are printed without comments (comment positions no
			// longer correspond); the build constraint header is re-emitted verbatim
			raw, _ := os.ReadFile(src)
			for _, line := range bytes.Split(raw, []byte("\n")) {
				if bytes.HasPrefix(line, []byte("package ")) {
					break
				}
				if bytes.HasPrefix(line, []byte("//go:build")) || bytes.HasPrefix(line, []byte("// +build")) {
					buf.Write(line)
					buf.WriteString("\n")
				}
			}
			buf.WriteString("\n")
			f.Comments = nil
			f.Doc = nil
			for _, d := range f.Decls {
				switch x := d.(type) {
				case *ast.FuncDecl:
					x.Doc = nil
				case *ast.GenDecl:
					x.Doc = nil
				}
			}
		}
		if err := printer.Fprint(&buf, fset, f); err != nil {
			fmt.Printf("BROKEN: cannot print %s: %v\n", src, err)
			os.Exit(2)
		}
		out := filepath.Join(outdir, filepath.Base(filepath.Dir(is.File))+"_"+filepath.Base(is.File))
		os.WriteFile(out, buf.Bytes(), 0o644)
		repl[src] = out
	}
	// virtual runtime packages
	addPkg := func(rel, importDir string) {
		ents, _ := os.ReadDir(filepath.Join(root, rel))
		for _, e := range ents {
			if filepath.Ext(e.Name()) == ".go" {
				repl[filepath.Join(repo, importDir, e.Name())] = filepath.Join(root, rel, e.Name())
			}
		}
	}
	addPkg("rt/vtime", "verifrt/vtime")
	addPkg("rt/vsync", "verifrt/vsync")
	addPkg("rt/sched", "verifrt")
}

func renameImport(f *ast.File, from, to, name string) bool {
	found := false
	for _, im := range f.Imports {
		p, _ := strconv.Unquote(im.Path.Value)
		if p == from {
			im.Path.Value = strconv.Quote(to)
			im.Name = ast.NewIdent(name)
			found = true
		}
	}
	return found
}
