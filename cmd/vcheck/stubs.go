package main

func selftest(args []string) {}
