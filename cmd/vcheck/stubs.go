package main

func instrument(sp *spec, repo, dir string, repl map[string]string) {}

func selftest(args []string) {}
