package main

import (
	"go/ast"
	"go/token"
)

func schedRewrite(fset *token.FileSet, f *ast.File) error { return nil }

func selftest(args []string) {}
