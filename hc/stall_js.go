//go:build js

package hc

func Tick() {}

func (w *W) WatchStall(describe func() (string, string, interface{})) {}
