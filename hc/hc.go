// Package hc is the small runtime shared by every worker program: command line,
// result file, violation recording, sample keeping and distinct-outcome counting.
package hc

import (
	"encoding/json"
	"flag"
	"fmt"
	"hash/fnv"
	"os"
	"sort"
	"strconv"
	"sync"
	"time"
)

// Violation is one counterexample. Signature is the stable class key matched against
// known_findings.json (so it must not contain run-specific data); Replay is whatever
// the worker needs to re-run exactly this case.
type Violation struct {
	Property  string      `json:"property"`
	Signature string      `json:"signature"`
	Desc      string      `json:"desc"`
	Replay    interface{} `json:"replay"`
}

// Result is what one worker (one shard) reports.
type Result struct {
	Property     string                 `json:"property"`
	Tier         string                 `json:"tier"`
	Shard        int                    `json:"shard"`
	NShards      int                    `json:"nshards"`
	Evaluations  int64                  `json:"evaluations"`
	States       int64                  `json:"states"`
	Transitions  int64                  `json:"transitions"`
	Executions   int64                  `json:"executions"`
	Exhaustive   bool                   `json:"exhaustive"`
	DistinctKeys []uint64               `json:"distinct_keys,omitempty"`
	DistinctN    int64                  `json:"distinct_n"`
	Samples      []interface{}          `json:"samples"`
	Violations   []Violation            `json:"violations"`
	Notes        []string               `json:"notes,omitempty"`
	Scenarios    map[string]interface{} `json:"scenarios,omitempty"`
	Counters     map[string]int64       `json:"counters,omitempty"`
	WallS        float64                `json:"wall_s"`
	Rule         string                 `json:"rule,omitempty"`
	Assumptions  []string               `json:"assumptions,omitempty"`
}

var (
	Tier     = flag.String("tier", "quick", "quick|thorough")
	Shard    = flag.Int("shard", 0, "shard index")
	NShards  = flag.Int("nshards", 1, "number of shards")
	Out      = flag.String("out", "", "result file")
	Replay   = flag.String("replay", "", "replay file: run only that case")
	Deadline = flag.Int("deadline", 0, "seconds after which exploration stops early (exhaustive=false)")
	Only     = flag.String("only", "", "restrict to one scenario (debugging)")
)

type W struct {
	mu       sync.Mutex
	R        Result
	start    time.Time
	distinct map[uint64]struct{}
	vsig     map[string]int
	maxViol  int
	capped   bool
	extraDistinct int64
}

// AddDistinct counts n cases that are distinct by construction (disjoint enumeration
// indices) and non-trivial by the worker's stated rule, without storing a key for each.
func (w *W) AddDistinct(n int64) {
	w.mu.Lock()
	w.extraDistinct += n
	w.mu.Unlock()
}

func Start(prop string) *W {
	flag.Parse()
	w := &W{start: time.Now(), distinct: map[uint64]struct{}{}, vsig: map[string]int{}, maxViol: 3}
	w.R.Property = prop
	w.R.Tier = *Tier
	w.R.Shard = *Shard
	w.R.NShards = *NShards
	w.R.Exhaustive = true
	w.R.Scenarios = map[string]interface{}{}
	w.R.Counters = map[string]int64{}
	return w
}

func Thorough() bool { return *Tier == "thorough" }

func Seed() int64 {
	s, _ := strconv.ParseInt(os.Getenv("VERIF_SEED"), 10, 64)
	return s
}

// Mine reports whether work item i belongs to this shard.
func Mine(i int) bool { return i%*NShards == *Shard }

// Expired reports whether the soft deadline passed; callers stop exploring and the
// result is marked non-exhaustive. It never decides a verdict.
func (w *W) Expired() bool {
	if *Deadline <= 0 {
		return false
	}
	if time.Since(w.start) > time.Duration(*Deadline)*time.Second {
		w.mu.Lock()
		if !w.capped {
			w.capped = true
			w.R.Exhaustive = false
			w.R.Notes = append(w.R.Notes, fmt.Sprintf("deadline of %ds reached; exploration stopped early", *Deadline))
		}
		w.mu.Unlock()
		return true
	}
	return false
}

func (w *W) NotExhaustive(why string) {
	w.mu.Lock()
	w.R.Exhaustive = false
	w.R.Notes = append(w.R.Notes, why)
	w.mu.Unlock()
}

func (w *W) Note(format string, a ...interface{}) {
	w.mu.Lock()
	w.R.Notes = append(w.R.Notes, fmt.Sprintf(format, a...))
	w.mu.Unlock()
}

func (w *W) Count(name string, n int64) {
	w.mu.Lock()
	w.R.Counters[name] += n
	w.mu.Unlock()
}

func Hash(parts ...interface{}) uint64 {
	h := fnv.New64a()
	for _, p := range parts {
		switch v := p.(type) {
		case string:
			h.Write([]byte(v))
		case []byte:
			h.Write(v)
		default:
			fmt.Fprintf(h, "%v", v)
		}
		h.Write([]byte{0})
	}
	return h.Sum64()
}

// Distinct records a non-trivial outcome key; the number of distinct keys is reported.
func (w *W) Distinct(k uint64) {
	w.mu.Lock()
	w.distinct[k] = struct{}{}
	w.mu.Unlock()
}

func (w *W) DistinctLen() int { w.mu.Lock(); defer w.mu.Unlock(); return len(w.distinct) }

// Sample keeps up to a few written-out cases.
func (w *W) Sample(s interface{}) {
	w.mu.Lock()
	if len(w.R.Samples) < 6 {
		w.R.Samples = append(w.R.Samples, s)
	}
	w.mu.Unlock()
}

// Violation records a counterexample; only the first few per signature are kept.
func (w *W) Violation(sig, desc string, replay interface{}) {
	w.mu.Lock()
	defer w.mu.Unlock()
	w.vsig[sig]++
	if w.vsig[sig] > w.maxViol {
		return
	}
	w.R.Violations = append(w.R.Violations, Violation{Property: w.R.Property, Signature: sig, Desc: desc, Replay: replay})
}

// ViolationSigs returns how many distinct signatures have been recorded.
func (w *W) ViolationSigs() int { w.mu.Lock(); defer w.mu.Unlock(); return len(w.vsig) }

func (w *W) Finish() {
	w.mu.Lock()
	defer w.mu.Unlock()
	w.R.WallS = time.Since(w.start).Seconds()
	keys := make([]uint64, 0, len(w.distinct))
	for k := range w.distinct {
		keys = append(keys, k)
	}
	sort.Slice(keys, func(i, j int) bool { return keys[i] < keys[j] })
	w.R.DistinctN = int64(len(keys)) + w.extraDistinct
	if len(keys) > 200000 {
		keys = keys[:200000]
	}
	w.R.DistinctKeys = keys
	for s, n := range w.vsig {
		w.R.Counters["violations:"+s] = int64(n)
	}
	b, err := json.Marshal(&w.R)
	if err != nil {
		fmt.Fprintln(os.Stderr, "marshal:", err)
		os.Exit(3)
	}
	if *Out == "" {
		os.Stdout.Write(b)
		os.Stdout.Write([]byte("\n"))
		return
	}
	if err := os.WriteFile(*Out, b, 0o644); err != nil {
		fmt.Fprintln(os.Stderr, "write:", err)
		os.Exit(3)
	}
}

// LoadReplay decodes the replay payload of a replay file into v.
func LoadReplay(v interface{}) error {
	b, err := os.ReadFile(*Replay)
	if err != nil {
		return err
	}
	var f struct {
		Replay json.RawMessage `json:"replay"`
	}
	if err := json.Unmarshal(b, &f); err != nil {
		return err
	}
	return json.Unmarshal(f.Replay, v)
}
