//go:build !js

package hc

import (
	"os"
	"sync/atomic"
	"syscall"
	"time"
)

// Stall detection for harnesses whose cases are microsecond-sized calls into the code under
// test (parsers, interpreters): a case that never returns (an endless loop in the library)
// would otherwise only surface as the driver's hard kill. The criterion is CPU based, not
// wall-clock based: no case has completed while this process consumed stallCPU of CPU time.
// A loaded machine slows the process down but then it does not accrue CPU time either.
const stallCPU = 90 * time.Second

var beat uint64

// Tick is called by engines that do not bump W.R.Evaluations per case.
func Tick() { atomic.AddUint64(&beat, 1) }

func cpuTime() time.Duration {
	var ru syscall.Rusage
	if err := syscall.Getrusage(syscall.RUSAGE_SELF, &ru); err != nil {
		return 0
	}
	return time.Duration(ru.Utime.Nano() + ru.Stime.Nano())
}

// WatchStall starts the watchdog; describe names the case in progress (signature suffix,
// description, replay payload) and may read harness variables without synchronisation.
func (w *W) WatchStall(describe func() (string, string, interface{})) {
	go func() {
		progress := func() uint64 { return atomic.LoadUint64(&beat) + uint64(atomic.LoadInt64(&w.R.Evaluations)) }
		last, cpu0 := progress(), cpuTime()
		for {
			time.Sleep(2 * time.Second)
			p, c := progress(), cpuTime()
			if p != last {
				last, cpu0 = p, c
				continue
			}
			if c-cpu0 > stallCPU {
				sig, desc, rp := describe()
				if *Replay != "" {
					println("VIOLATION: the call did not return (stall): " + desc)
					os.Exit(1)
				}
				w.Violation("stall:"+sig, "the call did not return: no case completed while the worker used "+stallCPU.String()+" of CPU time; in progress: "+desc, rp)
				w.NotExhaustive("stopped at a stalled call")
				w.Finish()
				os.Exit(0)
			}
		}
	}()
}
