//go:build !js

package hc

import (
	"os"
	"strconv"
	"strings"
	"sync/atomic"
	"syscall"
	"time"
)

// Stall detection for harnesses whose cases are microsecond-sized calls into the code under
// test (parsers, interpreters): a case that never returns (an endless loop in the library)
// would otherwise only surface as the driver's hard kill. The criterion is CPU based, not
// wall-clock based: no case has completed while this process consumed stallCPU of CPU time.
// A loaded machine slows the process down but then it does not accrue CPU time either.
const stallCPU = 90 * time.Second

var beat uint64

// Tick is called by engines that do not bump W.R.Evaluations per case.
func Tick() { atomic.AddUint64(&beat, 1) }

func cpuTime() time.Duration {
	var ru syscall.Rusage
	if err := syscall.Getrusage(syscall.RUSAGE_SELF, &ru); err != nil {
		return 0
	}
	return time.Duration(ru.Utime.Nano() + ru.Stime.Nano())
}

// runawayBytes: a single case (one call into the code under test on an input of a few bytes)
// during which the resident set of the worker grows by this much is reported like a stall -
// the call is allocating without bound and would otherwise end with the kernel's OOM killer
// choosing a victim. Memory the harness itself accumulates over many cases never counts: the
// baseline is taken each time a case completes.
const runawayBytes = 4 << 30

func rssBytes() int64 {
	b, err := os.ReadFile("/proc/self/statm")
	if err != nil {
		return 0
	}
	f := strings.Fields(string(b))
	if len(f) < 2 {
		return 0
	}
	n, _ := strconv.ParseInt(f[1], 10, 64)
	return n * int64(os.Getpagesize())
}

// WatchStall starts the watchdog; describe names the case in progress (signature suffix,
// description, replay payload) and may read harness variables without synchronisation.
func (w *W) WatchStall(describe func() (string, string, interface{})) {
	go func() {
		progress := func() uint64 { return atomic.LoadUint64(&beat) + uint64(atomic.LoadInt64(&w.R.Evaluations)) }
		last, cpu0, rss0 := progress(), cpuTime(), rssBytes()
		for {
			time.Sleep(500 * time.Millisecond)
			p, c := progress(), cpuTime()
			if p != last {
				last, cpu0, rss0 = p, c, rssBytes()
				continue
			}
			if rssBytes()-rss0 > runawayBytes {
				sig, desc, rp := describe()
				if *Replay != "" {
					println("VIOLATION: the call allocates without bound: " + desc)
					os.Exit(1)
				}
				w.Violation("stall:"+sig, "the call did not return and allocates without bound: the worker grew by more than 4 GiB while no case completed; in progress: "+desc, rp)
				w.NotExhaustive("stopped at a runaway call")
				w.Finish()
				os.Exit(0)
			}
			if c-cpu0 > stallCPU {
				sig, desc, rp := describe()
				if *Replay != "" {
					println("VIOLATION: the call did not return (stall): " + desc)
					os.Exit(1)
				}
				w.Violation("stall:"+sig, "the call did not return: no case completed while the worker used "+stallCPU.String()+" of CPU time; in progress: "+desc, rp)
				w.NotExhaustive("stopped at a stalled call")
				w.Finish()
				os.Exit(0)
			}
		}
	}()
}
