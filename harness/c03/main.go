// C03 — every key sequence of every terminal decodes to its key and modifiers.
// Engine C: complete enumeration over the live terminal database.
package main

import (
	"fmt"
	"strings"

	"github.com/gdamore/tcell/v2"

	"verif/harness/common"
	"verif/hc"
	ri "verif/ref/input"
)

type dec struct {
	p *tcell.VerifParser
}

// decode feeds seq in one read, then lets the escape timeout pass.
var curSeq string

func (d *dec) decode(seq string) (evs []ri.Ev, afterFeed int, pendingAfterFeed int, panicked interface{}) {
	defer func() {
		if r := recover(); r != nil {
			panicked = r
		}
	}()
	d.p.Reset()
	curSeq = seq
	a := d.p.Feed([]byte(seq))
	afterFeed = len(a)
	pendingAfterFeed = len(d.p.Pending())
	b := d.p.Expire()
	evs = append(ri.ConvAll(a), ri.ConvAll(b)...)
	if n := len(d.p.Pending()); n != 0 {
		evs = append(evs, ri.Ev{Kind: fmt.Sprintf("LEFTOVER(%d bytes)", n)})
	}
	return
}

func q(s string) string { return fmt.Sprintf("%q", s) }

func accepts(set []ri.KM, e ri.Ev) bool {
	if e.Kind != "key" {
		return false
	}
	for _, k := range set {
		if k.Key == e.Key && k.Mod == e.Mod {
			return true
		}
	}
	return false
}

func fmtEvs(evs []ri.Ev) string {
	s := make([]string, len(evs))
	for i, e := range evs {
		s[i] = e.String()
	}
	return "[" + strings.Join(s, " ") + "]"
}

func main() {
	w := hc.Start("C03")
	w.WatchStall(func() (string, string, interface{}) {
		return "decode", fmt.Sprintf("decoding %q (collectEventsFromInput does not return)", curSeq), map[string]interface{}{"seq": curSeq}
	})
	w.R.Rule = "for every entry registered in the live database (names and aliases): every populated Key* field (found by reflection), every xterm modifier parameter 2..16 on every cursor/editing/function key of xterm-style entries, all 32 C0 bytes and DEL, the ESC prefix on each of those and on printable bytes, lone ESC with timeout, all ordered pairs (thorough: plus triples over a 40-sequence subset) of sequences concatenated, and all pairs of table keys for the proper-prefix relation; each decode repeated 8x (map iteration order). distinct_nontrivial = distinct (entry, byte sequence) decodes that produced a non-rune key event"
	w.R.Assumptions = []string{"which key a description assigns to a sequence is read from the entry's Key* fields by name; where several fields share a sequence any of them is accepted", "xterm modifier encoding per ctlseqs: param-1 = Shift|Alt<<1|Ctrl<<2|Meta<<3"}
	entries := common.Entries()
	w.R.Scenarios["entries"] = len(entries)
	names := 0
	for ei, e := range entries {
		names += len(e.Names)
		if !hc.Mine(ei) {
			continue
		}
		checkEntry(w, e)
	}
	w.R.Scenarios["names_and_aliases"] = names
	w.Finish()
}

func checkEntry(w *hc.W, e common.Entry) {
	p, err := tcell.VerifNewParser(e.Ti, "UTF-8", 80, 24)
	if err != nil {
		w.Violation("newparser:"+e.Name, fmt.Sprintf("cannot build a screen for %s: %v", e.Name, err), nil)
		return
	}
	d := &dec{p}
	table := p.KeyTable()
	viol := func(kind, seq, desc string) {
		w.Violation(kind+":"+e.Name+":"+q(seq), fmt.Sprintf("terminal %s, input %s: %s", e.Name, q(seq), desc), map[string]string{"entry": e.Name, "seq": seq, "kind": kind})
	}
	one := func(seq string) ([]ri.Ev, bool) {
		w.R.Evaluations++
		first, _, _, pn := d.decode(seq)
		if pn != nil {
			viol("panic", seq, fmt.Sprintf("decoder panicked: %v", pn))
			return nil, false
		}
		for i := 0; i < 7; i++ {
			again, _, _, _ := d.decode(seq)
			if !ri.EqEvs(first, again) {
				viol("unstable", seq, fmt.Sprintf("decoding depends on table iteration order: %s vs %s", fmtEvs(first), fmtEvs(again)))
				return first, false
			}
		}
		for _, ev := range first {
			if ev.Kind == "key" && ev.Key != tcell.KeyRune {
				w.Distinct(hc.Hash(e.Name, seq))
				break
			}
		}
		return first, true
	}

	// (f) no table key is a proper prefix of another
	keys := make([]string, 0, len(table))
	for k := range table {
		keys = append(keys, k)
	}
	for _, a := range keys {
		for _, b := range keys {
			w.R.Evaluations++
			if a != b && strings.HasPrefix(b, a) {
				viol("prefix", a, fmt.Sprintf("table key %s (%v) is a proper prefix of %s (%v)", q(a), table[a], q(b), table[b]))
			}
		}
	}

	assigned := ri.Assigned(e.Ti)
	// Sequences that are both a capability of the description and xterm's encoding of a
	// modified key (st: kclr = CSI 3;5~ = Ctrl-Delete) have two readings the statement
	// supports; either is accepted for them.
	xmods := map[string][]ri.KM{}
	if e.Ti.Modifiers == 1 {
		for _, f := range ri.KeyFields(e.Ti) {
			isMod := false
			for _, fn := range ri.ModifiableFields {
				if fn == f.Field {
					isMod = true
				}
			}
			if !isMod {
				continue
			}
			for m := 2; m <= 16; m++ {
				if seq, ok := ri.XtermModified(f.Seq, m); ok {
					xmods[seq] = append(xmods[seq], ri.KM{Key: f.KM.Key, Mod: ri.XtermMods(m)})
				}
			}
		}
	}
	type single struct {
		seq string
		evs []ri.Ev
	}
	var singles []single // well-decoded single sequences for concatenation
	var escSingle *single
	addSingle := func(seq string, evs []ri.Ev) {
		if len(evs) == 1 {
			singles = append(singles, single{seq, evs})
		}
	}

	// (a) every key capability of the description
	for _, seq := range ri.SortedSeqs(assigned) {
		acc := append(append([]ri.KM{}, assigned[seq]...), xmods[seq]...)
		if seq == "\x7f" {
			// "a single DEL byte being reported as Backspace2", whichever key (kbs, kdch1) the
			// description sends it for
			acc = []ri.KM{{Key: tcell.KeyBackspace2}}
		}
		evs, ok := one(seq)
		if !ok {
			continue
		}
		if len(evs) != 1 || !accepts(acc, evs[0]) {
			viol("assigned", seq, fmt.Sprintf("decodes to %s, the description assigns %v", fmtEvs(evs), acc))
			continue
		}
		addSingle(seq, evs)
	}
	if len(w.R.Samples) < 2 && len(assigned) > 0 {
		s := ri.SortedSeqs(assigned)
		w.Sample(map[string]interface{}{"entry": e.Name, "sequence": q(s[len(s)/2]), "assigned": fmt.Sprint(assigned[s[len(s)/2]])})
	}

	// (b) xterm modifier parameters
	if e.Ti.Modifiers == 1 {
		fields := map[string]ri.KeyField{}
		for _, f := range ri.KeyFields(e.Ti) {
			fields[f.Field] = f
		}
		for _, fn := range ri.ModifiableFields {
			f, ok := fields[fn]
			if !ok {
				continue
			}
			for m := 2; m <= 16; m++ {
				seq, ok := ri.XtermModified(f.Seq, m)
				if !ok {
					continue
				}
				want := ri.KM{Key: f.KM.Key, Mod: ri.XtermMods(m)}
				evs, ok := one(seq)
				if !ok {
					continue
				}
				if len(evs) != 1 || !accepts(append([]ri.KM{want}, assigned[seq]...), evs[0]) {
					viol("xtermmod", seq, fmt.Sprintf("%s with modifier parameter %d decodes to %s, xterm encodes %v", fn, m, fmtEvs(evs), want))
					continue
				}
				if m == 2 || m == 5 || m == 7 || m == 16 {
					addSingle(seq, evs)
				}
			}
		}
	}

	// (b2) the forms xterm itself (and st, tmux, ...: every xterm-style terminal) sends for the
	// modified cursor and editing keys, whatever unmodified form the description lists:
	// CSI 1 ; m A/B/C/D/H/F and CSI n ; m ~ (xterm ctlseqs, "PC-Style Function Keys")
	if e.Ti.Modifiers == 1 {
		canon := []struct {
			pre, fin string
			key      tcell.Key
		}{
			{"\x1b[1;", "A", tcell.KeyUp}, {"\x1b[1;", "B", tcell.KeyDown}, {"\x1b[1;", "C", tcell.KeyRight}, {"\x1b[1;", "D", tcell.KeyLeft},
			{"\x1b[1;", "H", tcell.KeyHome}, {"\x1b[1;", "F", tcell.KeyEnd},
			{"\x1b[2;", "~", tcell.KeyInsert}, {"\x1b[3;", "~", tcell.KeyDelete}, {"\x1b[5;", "~", tcell.KeyPgUp}, {"\x1b[6;", "~", tcell.KeyPgDn},
		}
		for _, c := range canon {
			for m := 2; m <= 16; m++ {
				seq := fmt.Sprintf("%s%d%s", c.pre, m, c.fin)
				if _, own := assigned[seq]; own {
					continue // the description gives this sequence a meaning of its own
				}
				want := ri.KM{Key: c.key, Mod: ri.XtermMods(m)}
				evs, ok := one(seq)
				if ok && (len(evs) != 1 || !accepts([]ri.KM{want}, evs[0])) {
					viol("xtermmod-canonical", seq, fmt.Sprintf("xterm's sequence for %s with modifier parameter %d decodes to %s, xterm encodes %v", tcell.KeyNames[c.key], m, fmtEvs(evs), want))
				}
			}
		}
	}

	// (c) single control bytes and DEL
	for b := 0; b < 32; b++ {
		seq := string([]byte{byte(b)})
		if b == 0x1b {
			w.R.Evaluations++
			p.Reset()
			a := p.Feed([]byte(seq))
			if len(a) != 0 {
				viol("lone-esc", seq, fmt.Sprintf("a lone ESC produced %s before the timeout", fmtEvs(ri.ConvAll(a))))
			}
			x := ri.ConvAll(p.Expire())
			if len(x) != 1 || x[0].Kind != "key" || x[0].Key != tcell.KeyEsc || x[0].Mod != 0 || len(p.Pending()) != 0 {
				viol("lone-esc", seq, fmt.Sprintf("a lone ESC decodes to %s after the timeout, want [Key(Esc,mod=0)]", fmtEvs(x)))
			} else {
				escSingle = &single{seq, x} // the Esc key is a key too: ESC ESC is Alt+Esc
			}
			continue
		}
		acc := append(append([]ri.KM{}, assigned[seq]...), ri.ControlByte(byte(b)))
		evs, ok := one(seq)
		if !ok {
			continue
		}
		if len(evs) != 1 || !accepts(acc, evs[0]) {
			viol("control", seq, fmt.Sprintf("decodes to %s, want one of %v", fmtEvs(evs), acc))
			continue
		}
		addSingle(seq, evs)
	}
	{
		evs, ok := one("\x7f")
		if ok && (len(evs) != 1 || !accepts([]ri.KM{{Key: tcell.KeyBackspace2}}, evs[0])) {
			viol("del", "\x7f", fmt.Sprintf("DEL decodes to %s, want Backspace2", fmtEvs(evs)))
		} else if ok {
			addSingle("\x7f", evs)
		}
	}
	for _, r := range []string{"a", "Z", "~", "é"} {
		evs, ok := one(r)
		rr := []rune(r)[0]
		if ok && (len(evs) != 1 || evs[0].Kind != "key" || evs[0].Key != tcell.KeyRune || evs[0].Rune != rr || evs[0].Mod != 0) {
			viol("rune", r, fmt.Sprintf("decodes to %s, want Rune(%q)", fmtEvs(evs), rr))
		} else if ok {
			addSingle(r, evs)
		}
	}

	// (d) ESC prefix => Alt
	altSingles := append([]single{}, singles...)
	if escSingle != nil {
		// only for the Alt clause: in a concatenation a leading ESC is the Alt prefix of what follows
		altSingles = append(altSingles, *escSingle)
	}
	for _, s := range altSingles {
		seq := "\x1b" + s.seq
		if _, isOwn := assigned[seq]; isOwn {
			continue // the description gives the ESC-prefixed sequence its own meaning
		}
		if _, inTable := table[seq]; inTable {
			continue // e.g. generated xterm sequences
		}
		conflict := false
		for k := range table {
			if strings.HasPrefix(k, seq) || (strings.HasPrefix(seq, k) && k != "\x1b") {
				conflict = true // ESC+seq starts (or contains) another defined key: not "ESC followed by a key"
			}
		}
		if conflict {
			continue
		}
		want := s.evs[0]
		want.Mod |= tcell.ModAlt
		evs, ok := one(seq)
		if ok && (len(evs) != 1 || evs[0] != want) {
			viol("alt", seq, fmt.Sprintf("ESC followed by %s decodes to %s, want %s", q(s.seq), fmtEvs(evs), want))
		}
	}

	// (d2) two ESCs and a key are two key presses: the concatenation of (ESC ESC = Alt+Esc) and
	// the key, or of Esc and (ESC key = Alt+key) - never a single event
	if escSingle != nil {
		for _, s := range singles {
			seq := "\x1b\x1b" + s.seq
			conflict := false
			for k := range table {
				if k != "\x1b" && (strings.HasPrefix(k, seq) || strings.HasPrefix(seq, k) || strings.HasPrefix(k, seq[1:]) || strings.HasPrefix(seq[1:], k)) {
					conflict = true
				}
			}
			if conflict {
				continue
			}
			escEv := escSingle.evs[0]
			a1, a2 := escEv, s.evs[0]
			a1.Mod |= tcell.ModAlt
			b1, b2 := escEv, s.evs[0]
			b2.Mod |= tcell.ModAlt
			evs, ok := one(seq)
			if ok && !ri.EqEvs(evs, []ri.Ev{a1, a2}) && !ri.EqEvs(evs, []ri.Ev{b1, b2}) {
				viol("esc-esc", seq, fmt.Sprintf("ESC ESC followed by %s decodes to %s, want %s or %s", q(s.seq), fmtEvs(evs), fmtEvs([]ri.Ev{a1, a2}), fmtEvs([]ri.Ev{b1, b2})))
			}
		}
	}

	// (e) concatenations decode to the concatenation of the events
	sub := singles
	for i, a := range singles {
		if i%64 == 0 && w.Expired() {
			return
		}
		for _, b := range singles {
			w.R.Evaluations++
			got, _, _, pn := d.decode(a.seq + b.seq)
			if pn != nil {
				viol("panic", a.seq+b.seq, fmt.Sprintf("decoder panicked: %v", pn))
				continue
			}
			want := []ri.Ev{a.evs[0], b.evs[0]}
			if !ri.EqEvs(got, want) {
				viol("concat", a.seq+b.seq, fmt.Sprintf("%s followed by %s decodes to %s, want %s", q(a.seq), q(b.seq), fmtEvs(got), fmtEvs(want)))
			}
		}
	}
	if hc.Thorough() {
		if len(sub) > 40 {
			step := len(sub) / 40
			var s2 []single
			for i := 0; i < len(sub) && len(s2) < 40; i += step {
				s2 = append(s2, sub[i])
			}
			sub = s2
		}
		for _, a := range sub {
			if w.Expired() {
				return
			}
			for _, b := range sub {
				for _, c := range sub {
					w.R.Evaluations++
					got, _, _, _ := d.decode(a.seq + b.seq + c.seq)
					want := []ri.Ev{a.evs[0], b.evs[0], c.evs[0]}
					if !ri.EqEvs(got, want) {
						viol("concat3", a.seq+b.seq+c.seq, fmt.Sprintf("%s %s %s decodes to %s, want %s", q(a.seq), q(b.seq), q(c.seq), fmtEvs(got), fmtEvs(want)))
					}
				}
			}
		}
	}
}
