// C07 — parameterized capability strings evaluate per terminfo(5).
// Engine C: (1) every parameterized string of the database and of tcell's own prepared
// strings over its whole parameter domain, (2) every program of a bounded terminfo(5)
// grammar x parameter vectors, (3) every byte string over the language's alphabet up to a
// length for robustness; oracle = reference interpreter, itself cross-checked against
// ncurses tparm for integer-only programs.
package main

import (
	"bytes"
	"encoding/hex"
	"fmt"
	"os"
	"os/exec"
	"path/filepath"
	"reflect"
	"regexp"
	"sort"
	"strings"

	"github.com/gdamore/tcell/v2"
	"github.com/gdamore/tcell/v2/terminfo"

	"verif/harness/common"
	"verif/hc"
	rt "verif/ref/tparm"
)

var w *hc.W

var (
	curProg   string
	curParams []interface{}
)
var ti = &terminfo.Terminfo{}

type tcase struct {
	prog   string
	params []interface{}
	origin string
}

func evalImpl(prog string, params []interface{}) (out string, panicked interface{}) {
	defer func() {
		if r := recover(); r != nil {
			panicked = r
		}
	}()
	curProg, curParams = prog, params
	return ti.TParm(prog, params...), nil
}

var m = &rt.Machine{}

// compare runs one case on tcell and on the reference (both carry their static variables
// from earlier cases of the same sequence, which is the cross-call behaviour under test).
func compare(c tcase, class string) (refOut string, defined bool) {
	w.R.Evaluations++
	got, pn := evalImpl(c.prog, c.params)
	ref := m.Eval(c.prog, c.params...)
	if pn != nil {
		w.Violation("panic:"+class, fmt.Sprintf("TParm(%q, %v) panicked: %v", c.prog, c.params, pn), map[string]interface{}{"prog": c.prog, "params": c.params})
		return ref.Out, false
	}
	if ref.Unspecified != "" {
		w.Count("unspecified_by_manual", 1)
		return ref.Out, false
	}
	if got != ref.Out {
		sig := c.prog
		if len(sig) > 60 {
			sig = sig[:60]
		}
		w.Violation("tparm:"+class+":"+fmt.Sprintf("%q", sig), fmt.Sprintf("TParm(%q, %v) = %q, terminfo(5) gives %q  [%s]", c.prog, c.params, got, ref.Out, c.origin), map[string]interface{}{"prog": c.prog, "params": c.params})
	}
	return ref.Out, true
}

func resetStatics() {
	terminfo.VerifResetStatics()
	m = &rt.Machine{}
}

// ---------- space 1: database and prepared strings ----------

var reStrParam = regexp.MustCompile(`%p([1-9])%(?::?[-+# ]*[0-9.]*)s|%p([1-9])%l`)

func paramKinds(prog string) (n int, isStr [9]bool) {
	n, _ = rt.WellFormed(prog)
	for _, g := range reStrParam.FindAllStringSubmatch(prog, -1) {
		d := g[1]
		if d == "" {
			d = g[2]
		}
		isStr[d[0]-'1'] = true
	}
	return
}

func domain(prog, name string, n int, isStr [9]bool, f func(p []interface{})) {
	strs := []string{"", "ab", "http://x/y?z=1;2", "%d$<5>", "007"}
	ints1 := func(max int) []int {
		v := make([]int, max+1)
		for i := range v {
			v[i] = i
		}
		return v
	}
	anyStr := false
	for i := 0; i < n; i++ {
		anyStr = anyStr || isStr[i]
	}
	switch {
	case n == 0:
		f(nil)
	case anyStr:
		// string parameters from the small set, integer ones from {0,1,255}
		var rec func(i int, cur []interface{})
		rec = func(i int, cur []interface{}) {
			if i == n {
				f(append([]interface{}{}, cur...))
				return
			}
			if isStr[i] {
				for _, s := range strs {
					rec(i+1, append(cur, s))
				}
			} else {
				for _, v := range []int{0, 1, 255} {
					rec(i+1, append(cur, v))
				}
			}
		}
		rec(0, nil)
	case n == 1:
		for _, v := range ints1(1023) {
			f([]interface{}{v})
		}
	case n == 2:
		edge := []int{0, 1, 9, 10, 99, 100, 255, 256, 999, 1023}
		if hc.Thorough() {
			for a := 0; a < 1024; a++ {
				for b := 0; b < 1024; b++ {
					f([]interface{}{a, b})
				}
			}
		} else {
			for a := 0; a < 1024; a++ {
				for _, b := range edge {
					f([]interface{}{a, b})
					f([]interface{}{b, a})
				}
			}
		}
	default:
		// each component sweeps 0..255 with the others at {0,128,255}
		fixed := []int{0, 128, 255}
		for i := 0; i < n; i++ {
			for v := 0; v < 256; v++ {
				for _, o := range fixed {
					p := make([]interface{}, n)
					for j := range p {
						p[j] = o
					}
					p[i] = v
					f(p)
				}
			}
		}
	}
}

func dbStrings() []tcase {
	seen := map[string]string{}
	var keys []string
	add := func(origin, s string) {
		if !strings.Contains(s, "%") {
			return
		}
		if _, ok := seen[s]; !ok {
			seen[s] = origin
			keys = append(keys, s)
		}
	}
	for _, e := range common.Entries() {
		v := reflect.ValueOf(e.Ti).Elem()
		t := v.Type()
		for i := 0; i < t.NumField(); i++ {
			if t.Field(i).Type.Kind() == reflect.String && !strings.HasPrefix(t.Field(i).Name, "Key") {
				add(e.Name+"."+t.Field(i).Name, v.Field(i).String())
			}
		}
		if p, err := tcell.VerifNewParser(e.Ti, "UTF-8", 80, 24); err == nil {
			ss := p.Strings()
			var ns []string
			for n := range ss {
				ns = append(ns, n)
			}
			sort.Strings(ns)
			for _, n := range ns {
				add(e.Name+":tcell."+n, ss[n])
			}
		}
	}
	// LookupTerminfo's synthesized colour strings
	for _, n := range []string{"xterm-truecolor", "rxvt-256color-truecolor", "sun-256color", "vt100-truecolor"} {
		if t, err := terminfo.LookupTerminfo(n); err == nil {
			for _, s := range []struct{ n, s string }{{"SetFg", t.SetFg}, {"SetBg", t.SetBg}, {"SetFgBg", t.SetFgBg}, {"SetFgRGB", t.SetFgRGB}, {"SetBgRGB", t.SetBgRGB}, {"SetFgBgRGB", t.SetFgBgRGB}} {
				add(n+"(lookup)."+s.n, s.s)
			}
		}
	}
	out := make([]tcase, len(keys))
	for i, k := range keys {
		out[i] = tcase{prog: k, origin: seen[k]}
	}
	return out
}

func space1() {
	progs := dbStrings()
	w.R.Scenarios["db_parameterized_strings"] = len(progs)
	for i, c := range progs {
		if !hc.Mine(i) {
			continue
		}
		if _, err := rt.WellFormed(c.prog); err != nil {
			// C14 reports malformed database strings; here they are only robustness inputs
			evalImpl(c.prog, []interface{}{1, 2, 3})
			continue
		}
		n, isStr := paramKinds(c.prog)
		cnt := 0
		var nc []tcase
		domain(c.prog, c.origin, n, isStr, func(p []interface{}) {
			resetStatics()
			cc := tcase{c.prog, p, c.origin}
			compare(cc, "db")
			cnt++
			anyStr := false
			for _, x := range p {
				if _, ok := x.(string); ok {
					anyStr = true
				}
			}
			if !anyStr && cnt%7 == 0 {
				nc = append(nc, cc)
			}
		})
		w.AddDistinct(int64(cnt))
		if len(w.R.Samples) < 2 {
			w.Sample(map[string]interface{}{"origin": c.origin, "program": c.prog, "parameter_vectors": cnt})
		}
		crossCheck(nc, "db")
	}
}

// ---------- space 2: generated programs ----------

func genPrograms() [][]string {
	// each element is a sequence of programs evaluated in order (statics persist within it)
	var out [][]string
	one := func(p string) { out = append(out, []string{p}) }
	e0 := []string{"%p1", "%p2", "%{0}", "%{1}", "%{5}", "%'a'", "%p3"}
	bin := []string{"%+", "%-", "%*", "%/", "%m", "%&", "%|", "%^", "%=", "%<", "%>", "%A", "%O"}
	un := []string{"%!", "%~"}
	var e1 []string
	for _, a := range e0 {
		for _, b := range e0 {
			for _, o := range bin {
				e1 = append(e1, a+b+o)
			}
		}
		for _, o := range un {
			e1 = append(e1, a+o)
		}
	}
	for _, e := range e0 {
		one(e + "%d")
	}
	for _, e := range e1 {
		one("<" + e + "%d>")
	}
	// depth-2 expressions over a sub-alphabet: operand order and stack discipline
	sub := []string{"%+", "%-", "%/", "%<", "%A", "%m"}
	for _, a := range []string{"%p1", "%p2", "%{5}"} {
		for _, b := range []string{"%p1", "%p2", "%{1}"} {
			for _, o1 := range sub {
				for _, c := range []string{"%p1", "%p3", "%{2}"} {
					for _, o2 := range sub {
						one(a + b + o1 + c + o2 + "%d")
						one(c + a + b + o1 + o2 + "%d")
					}
				}
			}
		}
	}
	// formats
	fmts := []string{"%d", "%2d", "%02d", "%03d", "%3d", "%:-3d", "%:+d", "%:+3d", "% d", "%x", "%X", "%o", "%02x", "%4X", "%#x", "%#o", "%5.3d", "%.2d", "%:-5.3d", "%c", "%s", "%5s", "%:-5s", "%.1s", "%l%d"}
	for _, e := range []string{"%p1", "%p2", "%{65}", "%'%'"} {
		for _, f := range fmts {
			one("[" + e + f + "]")
		}
	}
	one("%%|%p1%d%%")
	one("100%%")
	// %i
	for _, p := range []string{"%i%p1%d;%p2%d", "%p1%d%i%p1%d", "%i%i%p2%d,%p3%d", "%p1%p2%i%d.%d.%p1%d", "%i%p1%s"} {
		one(p)
	}
	// variables
	for _, p := range []string{"%p1%Pa%ga%d", "%p1%Pa%p2%Pb%gb%ga%-%d", "%ga%d", "%gz%d%p1%Pz%gz%d", "%p1%Pa%ga%ga%+%d", "%p1%Pa%p1%s%ga%s"} {
		one(p)
	}
	out = append(out, []string{"%p1%PA", "%gA%d", "%p2%PA%gA%d", "%gA%gA%*%d"})
	out = append(out, []string{"%p1%PZ%p2%Pz", "%gZ%d,%gz%d"})
	out = append(out, []string{"%?%p1%t%p2%PB%;", "%gB%d"})
	// the same program with the same parameters evaluated again after the variable changed
	// (TParm is not a pure function of its arguments: static variables persist across calls)
	out = append(out, []string{"%p1%PC", "<%gC%d>", "%p2%PC", "<%gC%d>", "%p1%p2%+%PC", "<%gC%d>"})
	out = append(out, []string{"%p1%PD", "%gD%{1}%+%PD", "%gD%{1}%+%PD", "%gD%d"})
	// conditionals: all structures over small condition and body sets up to a nesting depth
	conds := []string{"%p1", "%p2", "%p1%p2%=", "%p1%{1}%>", "%p1%p2%A", "%p1%!", "%p1%p2%O"}
	depth := 2
	if hc.Thorough() {
		depth = 3
	}
	var bodies func(d int) []string
	memo := map[int][]string{}
	bodies = func(d int) []string {
		if v, ok := memo[d]; ok {
			return v
		}
		b := []string{"", "T", "%p2%d", "x%%y"}
		if d > 0 {
			inner := bodies(d - 1)
			cs := conds[:3]
			if d == depth {
				cs = conds
			}
			lim := inner
			if len(lim) > 10 && d < depth {
				lim = lim[:10]
			}
			for _, c := range cs {
				for _, th := range lim {
					b = append(b, "%?"+c+"%t"+th+"%;")
					for _, el := range lim {
						if len(th)+len(el) > 40 {
							continue
						}
						b = append(b, "%?"+c+"%t"+th+"%e"+el+"%;")
					}
				}
			}
			// else-if chains
			for _, c1 := range cs {
				for _, c2 := range cs {
					b = append(b, "%?"+c1+"%tA%e"+c2+"%tB%eC%;")
					b = append(b, "%?"+c1+"%tA%e"+c2+"%tB%;")
					for _, c3 := range cs[:2] {
						b = append(b, "%?"+c1+"%tA%e"+c2+"%tB%e"+c3+"%tC%eD%;")
					}
				}
			}
		}
		memo[d] = b
		return b
	}
	for _, b := range bodies(depth) {
		if strings.Contains(b, "%?") {
			one("<" + b + ">")
		}
	}
	// nesting spines of depth 3 and 4: at every level the conditional has or lacks an else
	// arm and the next level sits in its then- or else-part; conditions over p1..p3
	var spine func(level, depth int) []string
	spine = func(level, depth int) []string {
		c := []string{"%p1", "%p2", "%p3"}[level%3]
		tag := string(rune('A' + level))
		if level == depth-1 {
			return []string{"%?" + c + "%t" + tag + "%;", "%?" + c + "%t" + tag + "%e" + strings.ToLower(tag) + "%;"}
		}
		var out []string
		for _, in := range spine(level+1, depth) {
			out = append(out, "%?"+c+"%t"+tag+in+tag+"%;")
			out = append(out, "%?"+c+"%t"+tag+in+tag+"%e"+strings.ToLower(tag)+"%;")
			out = append(out, "%?"+c+"%t"+tag+"%e"+strings.ToLower(tag)+in+strings.ToLower(tag)+"%;")
		}
		return out
	}
	for _, d := range []int{3, 4} {
		for _, p := range spine(0, d) {
			one("<" + p + ">Z")
		}
	}
	// the shape the database uses for colours, with nesting inside both arms
	one("\x1b[%?%p1%{8}%<%t3%p1%d%e%p1%{16}%<%t9%p1%{8}%-%d%e38;5;%p1%d%;m")
	one("%?%p1%t%?%p2%tB%eC%;D%eE%;")
	one("%?%p1%tA%e%?%p2%tB%e%?%p3%tC%eD%;%;%;")
	// string parameters
	for _, p := range []string{"%p1%s", "<%p1%s|%p2%s>", "%p1%l%d", "%p1%l%p2%l%+%d", "%p2%s;%p1%s", "%p1%10s|", "%p1%:-10s|", "%p1%.3s|"} {
		one(p)
	}
	return out
}

var intVecs [][]interface{}
var strVecs [][]interface{}

func init() {
	vals := []int{0, 1, 2, 5, -1, 255}
	for _, a := range vals {
		for _, b := range vals {
			for _, c := range []int{0, 7} {
				intVecs = append(intVecs, []interface{}{a, b, c})
			}
		}
	}
	for _, a := range []string{"", "ab", "hello, world", "007"} { // (a string of digits is a string)
		for _, b := range []string{"", "xyz", "12"} {
			strVecs = append(strVecs, []interface{}{a, b, 3})
		}
	}
}

func space2() {
	seqs := genPrograms()
	w.R.Scenarios["generated_program_sequences"] = len(seqs)
	var nc []tcase
	for i, sq := range seqs {
		if !hc.Mine(i) {
			continue
		}
		vecs := intVecs
		usesStr := false
		for _, p := range sq {
			if _, is := paramKinds(p); is[0] || is[1] {
				usesStr = true
			}
		}
		if usesStr {
			vecs = strVecs
		}
		for _, v := range vecs {
			resetStatics()
			for _, p := range sq {
				c := tcase{p, v, "generated"}
				_, defined := compare(c, "generated")
				if defined {
					w.Distinct(hc.Hash(p, fmt.Sprint(v)))
				}
				if defined && !usesStr && len(sq) == 1 && !strings.Contains(p, "%s") && !strings.Contains(p, "%l") {
					nc = append(nc, c)
				}
			}
		}
		if i%997 == 0 {
			w.Sample(map[string]interface{}{"program_sequence": sq, "vectors": len(vecs)})
		}
	}
	// %i with other argument lists than "two integers": it adds 1 to whichever of the first
	// two parameters exist (hpa / vpa style strings take one)
	if hc.Mine(len(seqs) + 1) {
		for _, p := range []string{"%i%p1%d", "\x1b[%i%p1%dG", "\x1b[%i%p1%dd", "<%i%p1%d>%p1%d", "%p1%d%i%p1%d"} {
			for _, v := range [][]interface{}{{0}, {5}, {255}, {7, 9}} {
				resetStatics()
				c := tcase{p, v, "generated"}
				if _, defined := compare(c, "generated"); defined {
					w.Distinct(hc.Hash(p, fmt.Sprint(v)))
					if len(v) == 1 {
						nc = append(nc, c)
					}
				}
			}
		}
	}
	crossCheck(nc, "generated")
}

// crossCheck validates the reference itself against ncurses tparm (integer-only programs).
func crossCheck(cases []tcase, class string) {
	if len(cases) == 0 {
		return
	}
	script := filepath.Join(os.Getenv("VERIF_ROOT_DIR"), "tools", "ncurses_tparm.py")
	if _, err := os.Stat(script); err != nil {
		script = "tools/ncurses_tparm.py"
	}
	var in bytes.Buffer
	for _, c := range cases {
		in.WriteString(hex.EncodeToString([]byte(c.prog)))
		for _, p := range c.params {
			fmt.Fprintf(&in, " %d", p.(int))
		}
		in.WriteByte('\n')
	}
	cmd := exec.Command("python3", script)
	cmd.Stdin = &in
	outb, err := cmd.Output()
	if err != nil {
		w.Note("ncurses cross-check unavailable (%v); reference interpreter not cross-checked in this run", err)
		return
	}
	lines := strings.Split(strings.TrimSpace(string(outb)), "\n")
	if len(lines) != len(cases) {
		w.Note("ncurses cross-check returned %d lines for %d cases; ignored", len(lines), len(cases))
		return
	}
	agree, dis := 0, 0
	for i, c := range cases {
		if lines[i] == "!" {
			continue
		}
		nb, _ := hex.DecodeString(lines[i])
		mm := &rt.Machine{}
		ref := mm.Eval(c.prog, c.params...)
		if ref.Unspecified != "" {
			continue
		}
		if string(nb) == ref.Out {
			agree++
		} else {
			dis++
			if dis <= 3 {
				w.Note("reference vs ncurses: %q %v -> reference %q, ncurses %q", c.prog, c.params, ref.Out, string(nb))
			}
		}
	}
	w.Count("ncurses_crosscheck_agree:"+class, int64(agree))
	w.Count("ncurses_crosscheck_disagree:"+class, int64(dis))
}

// ---------- space 3: robustness ----------

func space3() {
	alpha := []byte("%?te;p1{}'dPgaAx")
	L := 5
	if hc.Thorough() {
		L = 6
	}
	buf := make([]byte, L)
	idx := 0
	n := 0
	var rec func(d int)
	rec = func(d int) {
		if d > 0 {
			n++
			if _, pn := evalImpl(string(buf[:d]), []interface{}{1, 2, "s"}); pn != nil {
				w.Violation("panic:malformed", fmt.Sprintf("TParm(%q, 1, 2, \"s\") panicked: %v", buf[:d], pn), map[string]interface{}{"prog": string(buf[:d])})
			}
		}
		if d == L {
			return
		}
		for _, c := range alpha {
			buf[d] = c
			if d == 1 {
				idx++
				if !hc.Mine(idx) {
					continue
				}
			}
			rec(d + 1)
		}
	}
	rec(0)
	w.R.Evaluations += int64(n)
	w.R.Scenarios["malformed_strings"] = map[string]interface{}{"alphabet": string(alpha), "max_len": L, "this_shard": n}
}

type namedInt int

// space4: the parameters are numbers whatever Go integer type the caller holds them in (a colour
// component is a uint8 or an int32, a Color is an int64-based type): the value is what the
// stack machine gets
func space4() {
	convs := []struct {
		name string
		f    func(int) interface{}
	}{
		{"int8", func(v int) interface{} { return int8(v) }}, {"int16", func(v int) interface{} { return int16(v) }},
		{"int32", func(v int) interface{} { return int32(v) }}, {"int64", func(v int) interface{} { return int64(v) }},
		{"uint", func(v int) interface{} { return uint(v) }}, {"uint8", func(v int) interface{} { return uint8(v) }},
		{"uint16", func(v int) interface{} { return uint16(v) }}, {"uint32", func(v int) interface{} { return uint32(v) }},
		{"uint64", func(v int) interface{} { return uint64(v) }}, {"named int type", func(v int) interface{} { return namedInt(v) }},
		{"uintptr", func(v int) interface{} { return uintptr(v) }},
	}
	if !hc.Mine(0) {
		return
	}
	progs := []string{"%p1%d", "%i%p1%d;%p2%d", "%p1%{1}%+%c", "%?%p1%{7}%>%t%p1%x%e%p2%o%;", "\x1b[38;2;%p1%d;%p2%d;%p3%dm", "%p1%p2%+%d"}
	for _, prog := range progs {
		for _, cv := range convs {
			for _, v := range []int{0, 1, 7, 65, 120} { // (v+2 fits an int8)
				w.R.Evaluations++
				resetStatics()
				ref := (&rt.Machine{}).Eval(prog, v, v+1, v+2)
				got, pn := evalImpl(prog, []interface{}{cv.f(v), cv.f(v + 1), cv.f(v + 2)})
				if pn != nil || (ref.Unspecified == "" && got != ref.Out) {
					w.Violation("param-type:"+cv.name, fmt.Sprintf("TParm(%q, %s(%d), %s(%d), %s(%d)) = %q (panic %v), terminfo(5) gives %q for the parameters %d, %d, %d", prog, cv.name, v, cv.name, v+1, cv.name, v+2, got, pn, ref.Out, v, v+1, v+2),
						map[string]interface{}{"prog": prog, "params": []int{v, v + 1, v + 2}, "go_type": cv.name})
				}
			}
		}
	}
}

// space5: fewer parameters than the program mentions: an absent parameter is the number 0
// (and %i adds 1 to the first two, absent or not - ncurses gives ESC[6;1H for cup with only the
// row)
type namedString string

type namedBool bool

func space5() {
	if !hc.Mine(0) {
		return
	}
	// a truth value is 1 or 0, also when held in a named bool type
	for _, v := range []bool{false, true} {
		for _, prog := range []string{"%p1%d", "%?%p1%tyes%eno%;"} {
			w.R.Evaluations++
			resetStatics()
			n := map[bool]int{false: 0, true: 1}[v]
			ref := (&rt.Machine{}).Eval(prog, n)
			for _, p := range []interface{}{v, namedBool(v)} {
				got, pn := evalImpl(prog, []interface{}{p})
				if pn != nil || (ref.Unspecified == "" && got != ref.Out) {
					w.Violation("param-type:bool", fmt.Sprintf("TParm(%q, %T(%v)) = %q (panic %v), terminfo(5) gives %q for the number %d", prog, p, v, got, pn, ref.Out, n), map[string]interface{}{"prog": prog, "bool": v})
				}
			}
		}
	}
	// a string held in a named string type is that string
	for _, prog := range []string{"%p1%s", "%p1%l%d", "<%p1%s|%p2%s>"} {
		w.R.Evaluations++
		resetStatics()
		ref := (&rt.Machine{}).Eval(prog, "http://x", "id")
		got, pn := evalImpl(prog, []interface{}{namedString("http://x"), namedString("id")})
		if pn != nil || (ref.Unspecified == "" && got != ref.Out) {
			w.Violation("param-type:named string type", fmt.Sprintf("TParm(%q, namedString(\"http://x\"), namedString(\"id\")) = %q (panic %v), terminfo(5) gives %q for these strings", prog, got, pn, ref.Out), map[string]interface{}{"prog": prog})
		}
	}
	// %l is strlen: the number of bytes, also of a string holding multi-byte characters
	for _, str := range []string{"h\u00e9llo", "\u65e5\u672c\u8a9e", "a\U0001F600", "\xff\xfe"} {
		for _, prog := range []string{"%p1%l%d", "%p1%l%{6}%=%t=%e#%;", "%p1%s:%p1%l%d"} {
			resetStatics()
			compare(tcase{prog: prog, params: []interface{}{str}, origin: "string parameter with multi-byte characters"}, "strlen-bytes")
		}
	}
	progs := []string{"\x1b[%i%p1%d;%p2%dH", "\x1b[%i%p1%dG", "%i%p2%d", "%p1%d,%p2%d,%p3%d", "%i%p1%d%p2%d%p9%d", "%?%p2%t2%e-%;%p1%d", "%p2%{5}%+%d", "%i%p1%p2%+%d"}
	for _, prog := range progs {
		for n := 0; n <= 2; n++ {
			for _, v := range []int{0, 5, 79} {
				params := []interface{}{v, v + 1}[:n]
				resetStatics()
				compare(tcase{prog: prog, params: params, origin: "fewer parameters than mentioned"}, "absent-parameter")
				if n == 0 {
					break
				}
			}
		}
	}
}

func main() {
	w = hc.Start("C07")
	w.WatchStall(func() (string, string, interface{}) {
		return "tparm", fmt.Sprintf("TParm(%q, %v) does not return", curProg, curParams), map[string]interface{}{"prog": curProg, "params": curParams}
	})
	w.R.Rule = "(1) every distinct parameterized string of every database entry, of LookupTerminfo's synthesized colour strings and of the sequences tcell prepares for itself (harvested from built screens), over its parameter domain: one parameter 0..1023, two parameters 0..1023 x edge set both ways (thorough: full 1024^2), three or more: each component 0..255 with the others at {0,128,255}, string parameters from a small set; (2) every program of a bounded terminfo(5) grammar (all binary/unary operators over leaf pairs, depth-2 expressions over a sub-alphabet, all printf formats, %i, dynamic/static variables incl. multi-call sequences, all conditional structures to nesting depth 2 (thorough 3) incl. else-if chains) x 72 integer or 6 string parameter vectors; (3) all byte strings up to length 5 (thorough 6) over the 16-symbol alphabet of the language for panics; (4) parameters held in every Go integer type (uintptr and named types included), truth values in bool and named bool types, strings in named string types, fewer parameters than mentioned, and %l of strings with multi-byte and invalid UTF-8 content (a byte count). Oracle: reference interpreter written from terminfo(5), cross-checked against ncurses tparm on integer-only cases. distinct_nontrivial = distinct (program, parameters) cases the manual defines"
	w.R.Assumptions = []string{"cases the manual leaves undefined (stack underflow, type confusion, %c of 0, negative values with unsigned conversions, division by zero) are counted but not compared", "ncurses (python3 curses.tparm) is used only to validate the reference; disagreements are reported, not blamed on tcell"}
	if *hc.Replay != "" {
		var rp struct {
			Prog   string
			Params []interface{}
		}
		hc.LoadReplay(&rp)
		for i, p := range rp.Params {
			if f, ok := p.(float64); ok {
				rp.Params[i] = int(f)
			}
		}
		got, pn := evalImpl(rp.Prog, rp.Params)
		ref := (&rt.Machine{}).Eval(rp.Prog, rp.Params...)
		fmt.Printf("TParm(%q, %v) = %q panic=%v; reference %q (%s)\n", rp.Prog, rp.Params, got, pn, ref.Out, ref.Unspecified)
		return
	}
	space1()
	space2()
	space3()
	space4()
	space5()
	w.Finish()
}
