// C14 — built-in terminal database complete, well-formed, lookups stable.
// Static part: complete enumeration of the live database. History part: explicit
// exploration of all ordered pairs (thorough: triples over a subset) of lookups from a
// freshly restored database, under every documented environment setting.
package main

import (
	"fmt"
	"os"
	"path/filepath"
	"reflect"
	"regexp"
	"sort"
	"strings"

	"github.com/gdamore/tcell/v2"
	"github.com/gdamore/tcell/v2/terminfo"

	"verif/harness/common"
	"verif/hc"
	rt "verif/ref/tparm"
	"verif/ref/vt"
)

var w *hc.W

// how many parameters tcell supplies for each parameterized capability
var paramCount = map[string]int{
	"SetCursor": 2, "SetFg": 1, "SetBg": 1, "SetFgBg": 2, "SetFgRGB": 3, "SetBgRGB": 3, "SetFgBgRGB": 6,
	"EnterUrl": 2, "SetWindowSize": 2, "SetWindowTitle": 1, "CursorColorRGB": 3, "UnderlineColor": 1, "UnderlineColorRGB": 3,
}

func decodePen(s string) (vt.Pen, []string) {
	t := vt.New(4, 1, nil, vt.Quirks{})
	t.Write([]byte(s))
	return t.Pen, t.Errors
}

func isSGR(s string) bool { return strings.HasPrefix(s, "\x1b[") }

// shipped: the names and aliases declared by the entry packages in the source tree
// (terminfo/<letter>/<name>/term.go), read from the sources - independently of what ended up
// registered: every one of them must resolve.
func shipped() {
	if *hc.Shard != 0 {
		return
	}
	dir := os.Getenv("VERIF_REPO_DIR")
	if dir == "" {
		dir = "/repo"
	}
	files, _ := filepath.Glob(filepath.Join(dir, "terminfo", "*", "*", "term.go"))
	nameRe := regexp.MustCompile(`(?m)^\s*Name:\s*"([^"]+)"`)
	aliasRe := regexp.MustCompile(`(?m)^\s*Aliases:\s*\[\]string\{([^}]*)\}`)
	strRe := regexp.MustCompile(`"([^"]+)"`)
	n := 0
	for _, f := range files {
		src, err := os.ReadFile(f)
		if err != nil {
			continue
		}
		var names []string
		for _, m := range nameRe.FindAllSubmatch(src, -1) {
			names = append(names, string(m[1]))
		}
		for _, m := range aliasRe.FindAllSubmatch(src, -1) {
			for _, a := range strRe.FindAllSubmatch(m[1], -1) {
				names = append(names, string(a[1]))
			}
		}
		rel, _ := filepath.Rel(dir, f)
		for _, name := range names {
			n++
			w.R.Evaluations++
			ti, err := terminfo.LookupTerminfo(name)
			if err != nil || ti == nil {
				w.Violation("shipped-unresolved:"+name, fmt.Sprintf("%s declares the terminal name %q, but the built-in database (terminfo/extended) does not resolve it: %v", rel, name, err), map[string]string{"name": name, "file": rel})
				continue
			}
			if ti.SetCursor == "" {
				w.Violation("shipped-no-cup:"+name, fmt.Sprintf("%s: %q resolves to an entry without cursor addressing", rel, name), map[string]string{"name": name})
			}
		}
	}
	w.R.Scenarios["shipped_names_in_source_tree"] = n
	if n < 40 {
		w.Violation("shipped-scan", fmt.Sprintf("only %d terminal names found under %s/terminfo: the source scan is broken", n, dir), nil)
	}
}

func static() {
	shipped()
	entries := common.Entries()
	w.R.Scenarios["entries"] = len(entries)
	for ei, e := range entries {
		if !hc.Mine(ei) {
			continue
		}
		ti := e.Ti
		viol := func(kind, desc string) {
			w.Violation(kind+":"+e.Name, e.Name+": "+desc, map[string]string{"entry": e.Name})
		}
		// every alias the entry itself declares must be registered and resolve to it
		for _, n := range append([]string{ti.Name}, ti.Aliases...) {
			w.R.Evaluations++
			got := terminfo.VerifGet(n)
			if got == nil || got.Name != ti.Name {
				viol("alias-unregistered", fmt.Sprintf("the entry declares the name %q but the database does not map it to this entry", n))
			}
		}
		for _, n := range e.Names {
			w.R.Evaluations++
			got, err := terminfo.LookupTerminfo(n)
			if err != nil || got == nil {
				viol("unresolved", fmt.Sprintf("name %q does not resolve: %v", n, err))
				continue
			}
			if got.SetCursor == "" {
				viol("no-cup", fmt.Sprintf("name %q resolves to an entry without cursor addressing", n))
			}
			w.AddDistinct(1)
		}
		v := reflect.ValueOf(ti).Elem()
		t := v.Type()
		for i := 0; i < t.NumField(); i++ {
			f := t.Field(i)
			if f.Type.Kind() != reflect.String || f.Name == "Name" {
				continue
			}
			s := v.Field(i).String()
			if s == "" {
				continue
			}
			w.R.Evaluations++
			n, parametric := paramCount[f.Name]
			if !parametric {
				// emitted as is (through TPuts): must not contain parameter-language constructs
				if strings.Contains(s, "%p") || strings.Contains(s, "%?") || strings.Contains(s, "%i") {
					viol("unexpected-params:"+f.Name, fmt.Sprintf("%s = %q contains parameter-language constructs but is emitted without evaluation", f.Name, s))
				}
				continue
			}
			max, err := rt.WellFormed(s)
			if err != nil {
				viol("malformed:"+f.Name, fmt.Sprintf("%s = %q is not a well-formed terminfo program: %v", f.Name, s, err))
				continue
			}
			if max > n {
				viol("params:"+f.Name, fmt.Sprintf("%s = %q uses %%p%d but only %d parameters are supplied", f.Name, s, max, n))
			}
			w.AddDistinct(1)
		}
		// colour count vs colour strings
		hasFg, hasBg := ti.SetFg != "", ti.SetBg != ""
		if (ti.Colors > 0) != (hasFg && hasBg) || hasFg != hasBg {
			viol("colors-vs-strings", fmt.Sprintf("Colors=%d but SetFg=%q SetBg=%q", ti.Colors, ti.SetFg, ti.SetBg))
		}
		if ti.Colors > 0 && hasFg && hasBg && isSGR(ti.SetFg) {
			n := ti.Colors
			if n > 256 {
				viol("colors-range", fmt.Sprintf("Colors=%d exceeds what the palette strings can address", n))
				n = 256
			}
			for i := 0; i < n; i++ {
				w.R.Evaluations++
				pf, e1 := decodePen(ti.TParm(ti.SetFg, i))
				pb, e2 := decodePen(ti.TParm(ti.SetBg, i))
				want := vt.Color{Kind: vt.Indexed, V: int32(i)}
				if len(e1)+len(e2) > 0 || pf.Fg != want || pb.Bg != want {
					viol("colour-string", fmt.Sprintf("Colors=%d but colour %d is emitted as fg %q -> %v, bg %q -> %v (errors %v %v)", ti.Colors, i, ti.TParm(ti.SetFg, i), pf.Fg, ti.TParm(ti.SetBg, i), pb.Bg, e1, e2))
					break
				}
				if ti.SetFgBg != "" {
					p, e3 := decodePen(ti.TParm(ti.SetFgBg, i, (i+1)%n))
					if len(e3) > 0 || p.Fg != want || p.Bg != (vt.Color{Kind: vt.Indexed, V: int32((i + 1) % n)}) {
						viol("colour-string", fmt.Sprintf("SetFgBg(%d,%d) = %q selects fg=%v bg=%v", i, (i+1)%n, ti.TParm(ti.SetFgBg, i, (i+1)%n), p.Fg, p.Bg))
						break
					}
				}
			}
		}
		for _, rgb := range [][3]int{{0, 0, 0}, {1, 2, 3}, {255, 128, 0}, {255, 255, 255}} {
			want := vt.Color{Kind: vt.RGB, V: int32(rgb[0]<<16 | rgb[1]<<8 | rgb[2])}
			if ti.SetFgRGB != "" {
				w.R.Evaluations++
				if p, er := decodePen(ti.TParm(ti.SetFgRGB, rgb[0], rgb[1], rgb[2])); len(er) > 0 || p.Fg != want {
					viol("rgb-string", fmt.Sprintf("SetFgRGB%v = %q selects %v", rgb, ti.TParm(ti.SetFgRGB, rgb[0], rgb[1], rgb[2]), p.Fg))
				}
			}
			if ti.SetBgRGB != "" {
				if p, er := decodePen(ti.TParm(ti.SetBgRGB, rgb[0], rgb[1], rgb[2])); len(er) > 0 || p.Bg != want {
					viol("rgb-string", fmt.Sprintf("SetBgRGB%v = %q selects %v", rgb, ti.TParm(ti.SetBgRGB, rgb[0], rgb[1], rgb[2]), p.Bg))
				}
			}
			if ti.SetFgBgRGB != "" {
				if p, er := decodePen(ti.TParm(ti.SetFgBgRGB, rgb[0], rgb[1], rgb[2], rgb[2], rgb[1], rgb[0])); len(er) > 0 || p.Fg != want || p.Bg != (vt.Color{Kind: vt.RGB, V: int32(rgb[2]<<16 | rgb[1]<<8 | rgb[0])}) {
					viol("rgb-string", fmt.Sprintf("SetFgBgRGB = %q selects fg=%v bg=%v", ti.TParm(ti.SetFgBgRGB, rgb[0], rgb[1], rgb[2], rgb[2], rgb[1], rgb[0]), p.Fg, p.Bg))
				}
			}
		}
		// key table prefix-freeness
		if p, err := tcell.VerifNewParser(ti, "UTF-8", 80, 24); err == nil {
			tab := p.KeyTable()
			for a := range tab {
				for b := range tab {
					w.R.Evaluations++
					if a != b && strings.HasPrefix(b, a) {
						viol("key-prefix", fmt.Sprintf("key sequence %q is a proper prefix of %q", a, b))
					}
				}
			}
		} else {
			viol("no-screen", fmt.Sprintf("cannot build a screen: %v", err))
		}
	}
	w.Sample(map[string]interface{}{"static": "xterm-256color", "checks": "names resolve, cup present, 13 parameterized fields well-formed with <= supplied parameters, 256 colour strings decode to their index, key table prefix-free"})
}

// ---- lookup histories ----

type envSetting struct{ colorterm, truecolor string }

func (e envSetting) apply() {
	set := func(k, v string) {
		if v == "" {
			os.Unsetenv(k)
		} else {
			os.Setenv(k, v)
		}
	}
	set("COLORTERM", e.colorterm)
	set("TCELL_TRUECOLOR", e.truecolor)
}

type outcome struct {
	ti  *terminfo.Terminfo
	err error
}

func lookup(name string) (o outcome) {
	defer func() {
		if r := recover(); r != nil {
			o = outcome{nil, fmt.Errorf("panic: %v", r)}
		}
	}()
	t, err := terminfo.LookupTerminfo(name)
	if t != nil {
		c := *t
		c.Aliases = append([]string(nil), t.Aliases...)
		t = &c
	}
	return outcome{t, err}
}

func same(a, b outcome) bool {
	if (a.err == nil) != (b.err == nil) {
		return false
	}
	if a.ti == nil || b.ti == nil {
		return a.ti == nil && b.ti == nil
	}
	return reflect.DeepEqual(*a.ti, *b.ti)
}

func diff(a, b outcome) string {
	if a.ti == nil || b.ti == nil {
		return fmt.Sprintf("(%v,%v) vs (%v,%v)", a.ti != nil, a.err, b.ti != nil, b.err)
	}
	var d []string
	va, vb := reflect.ValueOf(*a.ti), reflect.ValueOf(*b.ti)
	for i := 0; i < va.NumField(); i++ {
		if !reflect.DeepEqual(va.Field(i).Interface(), vb.Field(i).Interface()) {
			d = append(d, fmt.Sprintf("%s: %q vs %q", va.Type().Field(i).Name, fmt.Sprint(va.Field(i).Interface()), fmt.Sprint(vb.Field(i).Interface())))
		}
	}
	return strings.Join(d, "; ")
}

func histories() {
	pristine := terminfo.VerifSnapshot()
	var base []string
	for n := range pristine {
		base = append(base, n)
	}
	sort.Strings(base)
	nameSet := map[string]bool{}
	for _, n := range base {
		nameSet[n] = true
		for _, sfx := range []string{"-color", "-88color", "-256color", "-truecolor"} {
			nameSet[n+sfx] = true
		}
	}
	for _, n := range []string{"", "nosuch", "nosuch-256color", "nosuch-truecolor", "xterm-256color-truecolor", "-truecolor", "-256color"} {
		nameSet[n] = true
	}
	var names []string
	for n := range nameSet {
		names = append(names, n)
	}
	sort.Strings(names)
	w.R.Scenarios["lookup_names"] = len(names)

	envs := []envSetting{{"", ""}, {"truecolor", ""}, {"", "disable"}, {"24bit", "disable"}, {"junk", "on"}, {"24-bit", ""}}
	if hc.Thorough() {
		envs = nil
		for _, c := range []string{"", "truecolor", "24bit", "junk"} {
			for _, t := range []string{"", "disable", "on"} {
				envs = append(envs, envSetting{c, t})
			}
		}
	}
	known := func(n string) bool { return pristine[n] != nil }
	item := 0
	for _, env := range envs {
		env.apply()
		// lookup(b) alone, from the pristine database
		alone := map[string]outcome{}
		for _, b := range names {
			terminfo.VerifRestore(pristine)
			alone[b] = lookup(b)
			w.R.States++
			semantic(b, alone[b], env, known, pristine)
		}
		for _, a := range names {
			item++
			if !hc.Mine(item) {
				continue
			}
			if w.Expired() {
				return
			}
			for _, b := range names {
				terminfo.VerifRestore(pristine)
				lookup(a)
				got := lookup(b)
				w.R.Transitions += 2
				w.R.Executions++
				if !same(got, alone[b]) {
					w.Violation(fmt.Sprintf("lookup-order:%s>%s", a, b), fmt.Sprintf("COLORTERM=%q TCELL_TRUECOLOR=%q: LookupTerminfo(%q) after LookupTerminfo(%q) differs from LookupTerminfo(%q) on a fresh database: %s", env.colorterm, env.truecolor, b, a, b, diff(got, alone[b])),
						map[string]interface{}{"first": a, "second": b, "COLORTERM": env.colorterm, "TCELL_TRUECOLOR": env.truecolor})
				}
			}
			w.Distinct(hc.Hash(a, env.colorterm, env.truecolor))
		}
		if hc.Thorough() {
			// triples over a subset
			sub := []string{}
			for i, n := range names {
				if i%(len(names)/40+1) == 0 {
					sub = append(sub, n)
				}
			}
			sub = append(sub, "xterm-256color-truecolor", "xterm-256color", "xterm", "rxvt-256color", "rxvt-truecolor")
			for _, a := range sub {
				item++
				if !hc.Mine(item) {
					continue
				}
				for _, b := range sub {
					for _, c := range sub {
						terminfo.VerifRestore(pristine)
						lookup(a)
						lookup(b)
						got := lookup(c)
						w.R.Transitions += 3
						w.R.Executions++
						if !same(got, alone[c]) {
							w.Violation(fmt.Sprintf("lookup-order3:%s>%s>%s", a, b, c), fmt.Sprintf("COLORTERM=%q TCELL_TRUECOLOR=%q: LookupTerminfo(%q) after %q, %q differs from a fresh lookup: %s", env.colorterm, env.truecolor, c, a, b, diff(got, alone[c])), nil)
						}
					}
				}
			}
		}
	}
	terminfo.VerifRestore(pristine)
	os.Unsetenv("COLORTERM")
	os.Unsetenv("TCELL_TRUECOLOR")
	w.Sample(map[string]interface{}{"history": []string{"LookupTerminfo(\"xterm-256color-truecolor\")", "LookupTerminfo(\"xterm-256color\")"}, "oracle": "second result deep-equals a lookup on a freshly restored database"})
}

// semantic checks one lookup result against the documented behaviour.
func semantic(name string, o outcome, env envSetting, known func(string) bool, pristine map[string]*terminfo.Terminfo) {
	if *hc.Shard != 0 {
		return
	}
	w.R.Evaluations++
	viol := func(kind, desc string) {
		w.Violation("lookup:"+kind+":"+name, fmt.Sprintf("COLORTERM=%q TCELL_TRUECOLOR=%q LookupTerminfo(%q): %s", env.colorterm, env.truecolor, name, desc), map[string]string{"name": name})
	}
	// which base does the name resolve to, per the documentation
	resolve := func(n string) (string, string) { // base, kind
		if known(n) {
			return n, "exact"
		}
		if strings.HasSuffix(n, "-truecolor") {
			b := strings.TrimSuffix(n, "-truecolor")
			for _, s := range []string{"-256color", "-88color", "-color", ""} {
				if b+s != "" && known(b+s) {
					return b + s, "truecolor"
				}
			}
		}
		if strings.HasSuffix(n, "-256color") {
			b := strings.TrimSuffix(n, "-256color")
			for _, s := range []string{"-88color", "-color"} {
				if known(b + s) {
					return b + s, "256color"
				}
			}
		}
		return "", "unknown"
	}
	base, kind := resolve(name)
	if kind == "unknown" {
		if o.err != terminfo.ErrTermNotFound || o.ti != nil {
			viol("unknown", fmt.Sprintf("unknown name gave (%v, %v), want ErrTermNotFound", o.ti != nil, o.err))
		}
		return
	}
	if o.err != nil || o.ti == nil {
		viol("notfound", fmt.Sprintf("resolves to base %q (%s) per the documentation but returned %v", base, kind, o.err))
		return
	}
	ti := o.ti
	b := pristine[base]
	wantTrue := kind == "truecolor" || b.TrueColor
	switch env.colorterm {
	case "truecolor", "24bit", "24-bit":
		wantTrue = true
	}
	switch env.truecolor {
	case "":
	case "disable":
		wantTrue = false
	default:
		wantTrue = true
	}
	nativeRGB := b.SetFgRGB != "" || b.SetBgRGB != "" || b.SetFgBgRGB != ""
	hasRGB := ti.SetFgRGB != "" || ti.SetBgRGB != "" || ti.SetFgBgRGB != ""
	if hasRGB != (wantTrue || nativeRGB) {
		viol("truecolor-switch", fmt.Sprintf("direct-colour strings present=%v, documented behaviour says %v (base %q native=%v)", hasRGB, wantTrue || nativeRGB, base, nativeRGB))
	}
	if hasRGB && !nativeRGB {
		for _, rgb := range [][3]int{{0, 0, 0}, {12, 200, 255}, {255, 255, 255}} {
			want := vt.Color{Kind: vt.RGB, V: int32(rgb[0]<<16 | rgb[1]<<8 | rgb[2])}
			pf, e1 := decodePen(ti.TParm(ti.SetFgRGB, rgb[0], rgb[1], rgb[2]))
			pb, e2 := decodePen(ti.TParm(ti.SetBgRGB, rgb[0], rgb[1], rgb[2]))
			pp, e3 := decodePen(ti.TParm(ti.SetFgBgRGB, rgb[0], rgb[1], rgb[2], rgb[0], rgb[1], rgb[2]))
			if len(e1)+len(e2)+len(e3) > 0 || pf.Fg != want || pb.Bg != want || pp.Fg != want || pp.Bg != want {
				viol("truecolor-strings", fmt.Sprintf("synthesized 24-bit strings do not select %v", want))
			}
		}
	}
	if kind == "256color" {
		if ti.Colors != 256 {
			viol("256-colors", fmt.Sprintf("synthesized 256-colour entry has Colors=%d", ti.Colors))
		}
		for i := 0; i < 256; i++ {
			want := vt.Color{Kind: vt.Indexed, V: int32(i)}
			pf, e1 := decodePen(ti.TParm(ti.SetFg, i))
			pb, e2 := decodePen(ti.TParm(ti.SetBg, i))
			pp, e3 := decodePen(ti.TParm(ti.SetFgBg, i, 255-i))
			if len(e1)+len(e2)+len(e3) > 0 || pf.Fg != want || pb.Bg != want || pp.Fg != want || pp.Bg != (vt.Color{Kind: vt.Indexed, V: int32(255 - i)}) {
				viol("256-strings", fmt.Sprintf("synthesized 256-colour strings do not select colour %d", i))
				break
			}
		}
	}
	// whatever the environment asked for, the colour count of the returned entry must still
	// agree with its indexed colour strings (every index below Colors selects that palette entry)
	if ti.Colors > 0 && ti.SetFg != "" && ti.SetBg != "" && isSGR(ti.SetFg) {
		n := ti.Colors
		if n > 256 {
			viol("colors-range", fmt.Sprintf("Colors=%d exceeds what the palette strings can address", n))
			n = 256
		}
		for i := 0; i < n; i++ {
			pf, e1 := decodePen(ti.TParm(ti.SetFg, i))
			pb, e2 := decodePen(ti.TParm(ti.SetBg, i))
			want := vt.Color{Kind: vt.Indexed, V: int32(i)}
			if len(e1)+len(e2) > 0 || pf.Fg != want || pb.Bg != want {
				viol("colour-string", fmt.Sprintf("Colors=%d but colour %d is emitted as fg %q -> %v, bg %q -> %v", ti.Colors, i, ti.TParm(ti.SetFg, i), pf.Fg, ti.TParm(ti.SetBg, i), pb.Bg))
				break
			}
		}
	}
	if kind == "exact" && !wantTrue {
		// nothing may have been changed relative to the registered entry
		if !reflect.DeepEqual(*ti, func() terminfo.Terminfo { c := *b; c.Aliases = append([]string(nil), b.Aliases...); return c }()) {
			viol("exact-changed", "the returned entry differs from the registered one although no direct colour was requested: "+diff(o, outcome{ti: b}))
		}
	}
}

// a stand-in for ncurses' infocmp with its documented command line: options first ("--" ends
// them), then an optional terminal name; without a name it describes $TERM. It knows one
// terminal, xterm, with a deliberately poor description.
const infocmpStub = `#!/bin/sh
name=""
opts=1
for a in "$@"; do
	if [ $opts = 1 ] && [ "$a" = "--" ]; then opts=0; continue; fi
	if [ $opts = 1 ]; then case "$a" in -*) continue;; esac; fi
	name="$a"
done
[ -z "$name" ] && name="$TERM"
case "$name" in
xterm) printf '#\tstub\nxterm|stub entry,\n\tam,\n\tcols#80,\n\tlines#24,\n\tclear=\\E[H\\E[2J,\n\tcup=\\E[%%i%%p1%%d;%%p2%%dH,\n' ;;
stubcolor) printf '#\tstub\nstubcolor|stub colour entry,\n\tam,\n\tcolors#8,\n\tcols#80,\n\tlines#24,\n\tclear=\\E[H\\E[2J,\n\tcup=\\E[%%i%%p1%%d;%%p2%%dH,\n\top=\\E[39;49m,\n\tsetab=\\E[4%%p1%%dm,\n\tsetaf=\\E[3%%p1%%dm,\n\tsgr0=\\E[m,\n' ;;
stubxor) printf '#\tstub\nstubxor|stub entry with an exclusive-or in cup,\n\tcols#80,\n\tlines#24,\n\tclear=\\E[H\\E[2J,\n\tacsc=q\\0x\\263,\n\tcup=^L%%p2%%{96}%%^%%c%%p1%%{96}%%^%%c,\n' ;;
*) echo "infocmp: couldn't open terminfo file for $name" >&2; exit 1 ;;
esac
`

// optionLikeNames: tcell.LookupTerminfo falls back to the system's infocmp for names the
// built-in database lacks. A name is a name: one that looks like a command-line option is
// unknown (ErrTermNotFound or the tool's failure), and asking for it leaves every later lookup
// as it was.
func optionLikeNames() {
	if *hc.Shard != 0 {
		return
	}
	dir, err := os.MkdirTemp("", "verif-c14-")
	if err != nil {
		w.Note("optionLikeNames skipped: %v", err)
		return
	}
	defer os.RemoveAll(dir)
	if err := os.WriteFile(filepath.Join(dir, "infocmp"), []byte(infocmpStub), 0o755); err != nil {
		w.Note("optionLikeNames skipped: %v", err)
		return
	}
	oldPath, oldTerm := os.Getenv("PATH"), os.Getenv("TERM")
	defer func() { os.Setenv("PATH", oldPath); os.Setenv("TERM", oldTerm) }()
	os.Setenv("PATH", dir+string(os.PathListSeparator)+oldPath)
	os.Setenv("TERM", "xterm")
	envSetting{"", ""}.apply()
	pristine := terminfo.VerifSnapshot()
	before := lookup("xterm")
	for _, name := range []string{"-x", "-a", "-1", "-T", "--", "-", "-xterm", "nosuchterm", "xterm "} {
		w.R.Evaluations++
		w.AddDistinct(1)
		terminfo.VerifRestore(pristine)
		ti, err := tcell.LookupTerminfo(name)
		after := lookup("xterm")
		if err == nil {
			w.Violation("dynamic-option-name", fmt.Sprintf("TERM=xterm: tcell.LookupTerminfo(%q) succeeds and returns the entry %q: the name was handed to infocmp as a command-line option, which then described $TERM", name, ti.Name),
				map[string]interface{}{"name": name})
		}
		if !same(after, before) {
			w.Violation("dynamic-option-name", fmt.Sprintf("TERM=xterm: after tcell.LookupTerminfo(%q) a lookup of \"xterm\" returns a different entry than before: %s", name, diff(after, before)),
				map[string]interface{}{"name": name})
		}
	}
	terminfo.VerifRestore(pristine)

	// a name the system database has and the built-in one lacks: what the lookup returns is the
	// same the first time (fresh from infocmp) and every later time (from the registry), and
	// COLORTERM switches direct colour on for it as for any other entry
	for _, ct := range []string{"", "truecolor"} {
		w.R.Evaluations++
		w.AddDistinct(1)
		terminfo.VerifRestore(pristine)
		envSetting{ct, ""}.apply()
		conv := func(t *terminfo.Terminfo, err error) outcome {
			if t != nil {
				c := *t
				c.Aliases = append([]string(nil), t.Aliases...)
				t = &c
			}
			return outcome{t, err}
		}
		first := conv(tcell.LookupTerminfo("stubcolor"))
		second := conv(tcell.LookupTerminfo("stubcolor"))
		if first.err != nil {
			w.Violation("dynamic-lookup", fmt.Sprintf("COLORTERM=%q: tcell.LookupTerminfo(\"stubcolor\") (known to infocmp) fails: %v", ct, first.err), nil)
		} else if !same(first, second) {
			w.Violation("dynamic-first-lookup-differs", fmt.Sprintf("COLORTERM=%q: the first tcell.LookupTerminfo(\"stubcolor\") (answered by infocmp) and the second one (answered from the registry) return different entries: %s", ct, diff(first, second)), map[string]interface{}{"COLORTERM": ct})
		} else if ct == "truecolor" && first.ti.SetFgBgRGB == "" && first.ti.SetFgRGB == "" {
			w.Violation("dynamic-colorterm-ignored", "COLORTERM=truecolor: tcell.LookupTerminfo(\"stubcolor\") returns an entry without direct-colour strings", nil)
		}
	}
	// a cursor-addressing string with the exclusive-or operator %^ (dm2500 has one) keeps it
	{
		w.R.Evaluations++
		terminfo.VerifRestore(pristine)
		envSetting{"", ""}.apply()
		ti, err := tcell.LookupTerminfo("stubxor")
		if err != nil {
			w.Violation("dynamic-lookup", fmt.Sprintf("tcell.LookupTerminfo(\"stubxor\") fails: %v", err), nil)
		} else if want := "\x0c%p2%{96}%^%c%p1%{96}%^%c"; ti.SetCursor != want {
			w.Violation("dynamic-caret-operator", fmt.Sprintf("infocmp prints cup=^L%%p2%%{96}%%^%%c%%p1%%{96}%%^%%c; tcell.LookupTerminfo decodes it as %q, want %q (the ^ after %% is the exclusive-or operator, not a control-character escape)", ti.SetCursor, want), nil)
		}
	}
	// ... and \0 in a string is the byte 0200 (terminfo(5)), here the glyph of the horizontal line
	{
		w.R.Evaluations++
		terminfo.VerifRestore(pristine)
		if ti, err := tcell.LookupTerminfo("stubxor"); err == nil && ti.AltChars != "q\x80x\xb3" {
			w.Violation("dynamic-nul-escape", fmt.Sprintf("infocmp prints acsc=q\\0x\\263; tcell.LookupTerminfo decodes it as %q, want %q (terminfo(5): \\0 produces \\200)", ti.AltChars, "q\x80x\xb3"), nil)
		}
	}
	terminfo.VerifRestore(pristine)
}

func main() {
	w = hc.Start("C14")
	w.R.Rule = "static: every entry/alias registered in the live database (base + extended): resolves, has cup, every parameterized field is a well-formed terminfo program using no more parameters than tcell supplies, unparameterized fields contain no parameter constructs, Colors agrees with the colour strings (each index 0..Colors-1 decoded by the reference SGR interpreter), RGB strings decode exactly, key table prefix-free. histories: names = registered names x {'', -color, -88color, -256color, -truecolor} + unknown/odd names; for every ordered pair (a,b) (thorough: plus triples over a ~45-name subset), under each environment setting (COLORTERM x TCELL_TRUECOLOR), from a freshly restored database: lookup(b) after lookup(a) deep-equals lookup(b) alone; plus the documented semantics of each single lookup (synthesis, environment switches, ErrTermNotFound). distinct_nontrivial = distinct (first name, environment) rows explored + static obligations"
	w.R.Assumptions = []string{"the database is snapshotted and restored through a verif accessor (deep copy of every entry), so each pair starts from the registered state", "the histories exercise terminfo.LookupTerminfo; tcell.LookupTerminfo's infocmp fallback is exercised separately through a stub infocmp the harness puts on PATH (option-like and unknown names, a colour terminal looked up twice under COLORTERM, a description with %^ and \\0)"}
	if *hc.Replay != "" {
		var rp struct {
			First, Second, COLORTERM, TCELL_TRUECOLOR string
		}
		hc.LoadReplay(&rp)
		envSetting{rp.COLORTERM, rp.TCELL_TRUECOLOR}.apply()
		pristine := terminfo.VerifSnapshot()
		alone := lookup(rp.Second)
		terminfo.VerifRestore(pristine)
		lookup(rp.First)
		got := lookup(rp.Second)
		fmt.Printf("same=%v diff: %s\n", same(got, alone), diff(got, alone))
		return
	}
	static()
	histories()
	optionLikeNames()
	w.Finish()
}
