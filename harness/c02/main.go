// C02 — input decoding is independent of read chunking and consumes every byte.
// Engine C: all byte strings over the parsers' branching alphabet up to a length, from the
// initial parser state and from every mid-token state, each under one read / every two-chunk
// split / byte-wise with full parser-state comparison; all token strings up to a length
// under every split with the compositionality oracle.
package main

import (
	_ "github.com/gdamore/tcell/v2/encoding"
	"fmt"
	"sort"
	"strings"

	"github.com/gdamore/tcell/v2"

	"verif/harness/common"
	"verif/hc"
	ri "verif/ref/input"
)

// sigma: every byte some parser branches on, plus one representative of each other class.
var sigma = []byte{0x1b, '[', ']', 'O', '<', 'M', 'm', ';', '0', '1', '2', '5', '~', 'A', 'I', 'c', 'Q', '=', 0x07, '\\', 'x', 0x01, 0x7f, 0xc3, 0xa9, 0x9b, 0xff, '-'}

// deep: small alphabet for long strings (reaches the 7-byte OSC 52 introducer logic).
var deepQ = []byte{0x1b, 'x', 'Q', 0x07}
var deepT = []byte{0x1b, 'x', 'Q', 0x07, ']', '\\'}

type state struct {
	evs      []ri.Ev
	pending  string
	esc, btn bool
}

func (a state) eq(b state) bool {
	return ri.EqEvs(a.evs, b.evs) && a.pending == b.pending && a.esc == b.esc && a.btn == b.btn
}

func (s state) String() string {
	e := make([]string, len(s.evs))
	for i, x := range s.evs {
		e[i] = x.String()
	}
	return fmt.Sprintf("events=[%s] pending=%q escaped=%v buttondn=%v", strings.Join(e, " "), s.pending, s.esc, s.btn)
}

type rig struct {
	p     *tcell.VerifParser
	entry string
	cs    string
}

type start struct {
	prefix []byte // fed as one chunk before the explored string (a mid-token state)
}

// run feeds prefix (one chunk) then chunks; returns the state after the feeds and after expiry.
func (r *rig) run(prefix []byte, chunks [][]byte) (after, final state, panicked interface{}) {
	defer func() {
		if x := recover(); x != nil {
			panicked = x
		}
	}()
	r.p.Reset()
	curRig, curPrefix, curChunks = r, prefix, chunks
	var evs []ri.Ev
	if len(prefix) > 0 {
		evs = append(evs, ri.ConvAll(r.p.Feed(prefix))...)
	}
	for _, c := range chunks {
		evs = append(evs, ri.ConvAll(r.p.Feed(c))...)
	}
	e, b := r.p.Flags()
	after = state{append([]ri.Ev{}, evs...), string(r.p.Pending()), e, b}
	evs = append(evs, ri.ConvAll(r.p.Expire())...)
	e, b = r.p.Flags()
	final = state{evs, string(r.p.Pending()), e, b}
	return
}

// the case in progress, for the stall watchdog
var (
	curRig    *rig
	curPrefix []byte
	curChunks [][]byte
)

func describeCurrent() (string, string, interface{}) {
	r := curRig
	if r == nil {
		return "setup", "no case in progress", nil
	}
	var cs []string
	for _, c := range curChunks {
		cs = append(cs, string(c))
	}
	return "decode", fmt.Sprintf("%s/%s: decoding %s after %s (collectEventsFromInput does not return)", r.entry, r.cs, chunksDesc(curChunks), q(curPrefix)),
		map[string]interface{}{"Entry": r.entry, "Charset": r.cs, "Prefix": string(curPrefix), "Chunks": cs}
}

func q(b []byte) string { return fmt.Sprintf("%q", string(b)) }

func chunksDesc(cs [][]byte) string {
	s := make([]string, len(cs))
	for i, c := range cs {
		s[i] = q(c)
	}
	return strings.Join(s, " | ")
}

// checkString compares every partition class of s (after the start prefix).
func checkString(w *hc.W, r *rig, space string, prefix, s []byte) {
	w.R.Evaluations++
	oneA, oneF, pn := r.run(prefix, [][]byte{s})
	rp := func(chunks [][]byte) map[string]interface{} {
		var cs []string
		for _, c := range chunks {
			cs = append(cs, string(c))
		}
		return map[string]interface{}{"Entry": r.entry, "Charset": r.cs, "Prefix": string(prefix), "Chunks": cs}
	}
	if pn != nil {
		w.Violation("panic:"+space, fmt.Sprintf("%s/%s: decoding %s after %s panicked: %v", r.entry, r.cs, q(s), q(prefix), pn), rp([][]byte{s}))
		return
	}
	if oneF.pending != "" {
		w.Violation("leftover:"+space, fmt.Sprintf("%s/%s: after input %s%s and the escape timeout %d bytes remain buffered: %s", r.entry, r.cs, q(prefix), q(s), len(oneF.pending), oneF), rp([][]byte{s}))
	}
	if oneF.pending == "" && oneF.esc {
		// an ESC held back as the Alt prefix of the next key is buffered input too: once the
		// timeout has passed it has to be out (as the Esc key it was), not wait for a key
		// typed any time later
		w.Violation("leftover-alt:"+space+":"+r.cs, fmt.Sprintf("%s/%s: after input %s%s and the escape timeout nothing is buffered, but an Alt prefix is still pending: the next key, however much later, will carry Alt: %s", r.entry, r.cs, q(prefix), q(s), oneF), rp([][]byte{s}))
	}
	if len(oneF.evs) > 0 {
		nontrivial := false
		for _, e := range oneF.evs {
			if !(e.Kind == "key" && e.Key == tcell.KeyRune) {
				nontrivial = true
			}
		}
		if nontrivial {
			w.Distinct(hc.Hash(r.entry, prefix, s))
		}
	}
	try := func(chunks [][]byte) bool {
		w.R.Evaluations++
		a, f, pn := r.run(prefix, chunks)
		if pn != nil {
			w.Violation("panic:"+space, fmt.Sprintf("%s/%s: decoding %s after %s panicked: %v", r.entry, r.cs, chunksDesc(chunks), q(prefix), pn), rp(chunks))
			return false
		}
		if !a.eq(oneA) || !f.eq(oneF) {
			// shrink to a canonical minimal witness: fewest bytes, then earliest split
			mp, ms, cut := shrink(r, prefix, s)
			var mch [][]byte
			if cut > 0 {
				mch = [][]byte{ms[:cut], ms[cut:]}
			} else {
				for i := range ms {
					mch = append(mch, ms[i:i+1])
				}
			}
			mA, mF, _ := r.run(mp, [][]byte{ms})
			a2, f2, _ := r.run(mp, mch)
			sig := "chunking:" + q(mp) + "+" + chunksDesc(mch)
			w.Violation(sig, fmt.Sprintf("%s/%s: the same bytes give different results depending on the read boundaries (minimal witness; found in space %q from %s%s)\n start state: after %s\n one read  %s: %s\n             after timeout: %s\n as %s: %s\n             after timeout: %s", r.entry, r.cs, space, q(prefix), q(s), q(mp), q(ms), mA, mF, chunksDesc(mch), a2, f2), rp2(r, mp, mch))
			return false
		}
		return true
	}
	for i := 1; i < len(s); i++ {
		if !try([][]byte{s[:i], s[i:]}) {
			return
		}
	}
	if len(s) > 2 {
		bw := make([][]byte, len(s))
		for i := range s {
			bw[i] = s[i : i+1]
		}
		try(bw)
	}
}

func rp2(r *rig, prefix []byte, chunks [][]byte) map[string]interface{} {
	var cs []string
	for _, c := range chunks {
		cs = append(cs, string(c))
	}
	return map[string]interface{}{"Entry": r.entry, "Charset": r.cs, "Prefix": string(prefix), "Chunks": cs}
}

// differs reports whether some partition of s (after prefix) disagrees with the one-read
// result; cut is the earliest disagreeing two-chunk split, or 0 if only byte-wise disagrees.
func differs(r *rig, prefix, s []byte) (bool, int) {
	oneA, oneF, pn := r.run(prefix, [][]byte{s})
	if pn != nil {
		return false, 0
	}
	for i := 1; i < len(s); i++ {
		a, f, _ := r.run(prefix, [][]byte{s[:i], s[i:]})
		if !a.eq(oneA) || !f.eq(oneF) {
			return true, i
		}
	}
	if len(s) > 2 {
		bw := make([][]byte, len(s))
		for i := range s {
			bw[i] = s[i : i+1]
		}
		a, f, _ := r.run(prefix, bw)
		if !a.eq(oneA) || !f.eq(oneF) {
			return true, 0
		}
	}
	return false, 0
}

// shrink removes bytes (from the start prefix first, then from the string) while some
// partition still disagrees with the one-read result. Deterministic, so the witness is a
// stable signature.
func shrink(r *rig, prefix, s []byte) ([]byte, []byte, int) {
	prefix = append([]byte{}, prefix...)
	s = append([]byte{}, s...)
	// a start prefix is just an earlier chunk: fold it into the string when that keeps failing
	if len(prefix) > 0 {
		all := append(append([]byte{}, prefix...), s...)
		if ok, _ := differs(r, nil, all); ok {
			prefix, s = nil, all
		}
	}
	for changed := true; changed; {
		changed = false
		for win := 4; win >= 1; win-- {
			for i := 0; i+win <= len(s); i++ {
				t := append(append([]byte{}, s[:i]...), s[i+win:]...)
				if ok, _ := differs(r, prefix, t); ok {
					s, changed = t, true
					i--
				}
			}
			for i := 0; i+win <= len(prefix); i++ {
				t := append(append([]byte{}, prefix[:i]...), prefix[i+win:]...)
				if ok, _ := differs(r, t, s); ok {
					prefix, changed = t, true
					i--
				}
			}
		}
	}
	_, cut := differs(r, prefix, s)
	return prefix, s, cut
}

// classify names the kind of event that differs (stable part of the violation signature).
func classify(a, b state) string {
	kinds := map[string]bool{}
	for _, e := range a.evs {
		kinds[e.Kind] = true
	}
	for _, e := range b.evs {
		kinds[e.Kind] = true
	}
	var ks []string
	for k := range kinds {
		if k != "key" {
			ks = append(ks, k)
		}
	}
	sort.Strings(ks)
	if len(ks) == 0 {
		return "keys"
	}
	return strings.Join(ks, "+")
}

func enumerate(alpha []byte, maxLen int, mine func(i int) bool, f func(s []byte) bool) {
	buf := make([]byte, maxLen)
	idx := 0
	var rec func(d int) bool
	rec = func(d int) bool {
		if d > 0 {
			if !f(buf[:d]) {
				return false
			}
		}
		if d == maxLen {
			return true
		}
		for _, c := range alpha {
			if d == 1 || (maxLen == 1 && d == 0) {
				// shard on the second symbol (or the first for length-1 spaces)
			}
			buf[d] = c
			if d == 1 {
				idx++
				if !mine(idx) {
					continue
				}
			}
			if !rec(d + 1) {
				return false
			}
		}
		return true
	}
	// length-1 strings are enumerated by every shard only through shard 0 (d==1 gate applies from length 2)
	rec(0)
}

type token struct {
	name string
	b    []byte
	want []ri.Ev // reference decoding on a terminal that supports the feature; nil = not specified
	need string  // "", "mouse", "clipboard", "paste"
}

func keyEv(k tcell.Key, m tcell.ModMask) []ri.Ev { return []ri.Ev{{Kind: "key", Key: k, Mod: m}} }

func tokens(e common.Entry, p *tcell.VerifParser) []token {
	var t []token
	add := func(n, s string, want []ri.Ev, need string) {
		if s != "" {
			t = append(t, token{n, []byte(s), want, need})
		}
	}
	asg := ri.Assigned(e.Ti)
	// keys: expectation only when the description gives the sequence exactly one reading
	keyWant := func(seq string, alt bool) []ri.Ev {
		a := asg[seq]
		if len(a) == 0 {
			return nil
		}
		for _, x := range a[1:] {
			if x != a[0] {
				if al, ok := ri.FnAlias(a[0].Key); !(ok && al == x) {
					return nil
				}
			}
		}
		if _, isFn := ri.FnAlias(a[0].Key); isFn {
			return nil // alias reading also acceptable: leave to C03
		}
		m := a[0].Mod
		if alt {
			m |= tcell.ModAlt
		}
		return keyEv(a[0].Key, m)
	}
	add("KeyUp", e.Ti.KeyUp, keyWant(e.Ti.KeyUp, false), "")
	add("KeyF5", e.Ti.KeyF5, keyWant(e.Ti.KeyF5, false), "")
	add("KeyBackspace", e.Ti.KeyBackspace, nil, "")
	if s, ok := ri.XtermModified(e.Ti.KeyRight, 6); ok && e.Ti.Modifiers == 1 {
		add("Ctrl-Shift-Right", s, keyEv(tcell.KeyRight, tcell.ModCtrl|tcell.ModShift), "")
	}
	if e.Ti.KeyDown != "" && len(e.Ti.KeyDown) > 1 {
		add("Alt-KeyDown", "\x1b"+e.Ti.KeyDown, nil, "")
	}
	mouse := func(x, y int, b tcell.ButtonMask) []ri.Ev { return []ri.Ev{{Kind: "mouse", X: x, Y: y, Buttons: b}} }
	add("sgr-press", "\x1b[<0;3;4M", mouse(2, 3, tcell.Button1), "mouse")
	add("sgr-release", "\x1b[<0;3;4m", mouse(2, 3, tcell.ButtonNone), "mouse")
	add("sgr-motion", "\x1b[<35;10;11M", mouse(9, 10, tcell.ButtonNone), "mouse")
	add("sgr-wheel", "\x1b[<65;1;1M", mouse(0, 0, tcell.WheelDown), "mouse")
	add("sgr-negative", "\x1b[<35;-3;-12M", mouse(0, 0, tcell.ButtonNone), "mouse") // the pointer left of and above the window
	add("x11-press", "\x1b[M !\"", mouse(0, 1, tcell.Button1), "mouse")
	add("x11-press-8bit", "\x9bM !\"", mouse(0, 1, tcell.Button1), "mouse") // the same report behind the one-byte CSI: five bytes, not six
	add("paste-start", "\x1b[200~", []ri.Ev{{Kind: "paste", Flag: true}}, "paste")
	add("paste-end", "\x1b[201~", []ri.Ev{{Kind: "paste", Flag: false}}, "paste")
	add("focus-in", "\x1b[I", []ri.Ev{{Kind: "focus", Flag: true}}, "")
	add("focus-out", "\x1b[O", []ri.Ev{{Kind: "focus", Flag: false}}, "")
	add("osc52-bel", "\x1b]52;c;QUJD\a", []ri.Ev{{Kind: "clipboard", Data: "ABC"}}, "clipboard")
	add("osc52-st", "\x1b]52;c;QUI=\x1b\\", []ri.Ev{{Kind: "clipboard", Data: "AB"}}, "clipboard")
	add("a", "a", []ri.Ev{{Kind: "key", Key: tcell.KeyRune, Rune: 'a'}}, "")
	add("e-acute", "\xc3\xa9", []ri.Ev{{Kind: "key", Key: tcell.KeyRune, Rune: 0xe9}}, "")
	add("invalid-ff", "\xff", nil, "")
	add("ctrl-a", "\x01", nil, "")
	add("lead-c3", "\xc3", nil, "")
	add("alt-x", "\x1bx", []ri.Ev{{Kind: "key", Key: tcell.KeyRune, Rune: 'x', Mod: tcell.ModAlt}}, "")
	add("lone-esc", "\x1b", keyEv(tcell.KeyEsc, 0), "")
	return t
}

func main() {
	w := hc.Start("C02")
	w.WatchStall(describeCurrent)
	w.R.Rule = "per terminal description (quick: one per distinct input signature = key table + mouse + clipboard capability; thorough: every entry): (1a) all byte strings over a 28-byte branching alphabet up to length L from the initial parser state, (1b) all strings up to length 9 over a 4-6 byte alphabet, (1c) all strings up to length 2-3 from the state after every proper prefix of every token; each string fed in one read, at every two-chunk split and byte-wise, comparing events, unconsumed bytes and parser flags after the feeds and after the timeout (no byte may remain); (2) all token strings up to length 3 (keys, modified keys, Alt prefix, SGR/X11 mouse, paste brackets, focus, OSC 52 replies with BEL and ST, ASCII, UTF-8, invalid byte, control byte) under the same partitions plus compositionality: events(t1 t2 t3) = events(t1)+events(t2)+events(t3) for self-delimiting tokens. distinct_nontrivial = distinct (entry,start,string) cases producing at least one non-rune event"
	w.R.Assumptions = []string{"two-chunk splits plus state equality imply all partitions (induction on the number of chunks, DESIGN.md 1.4); byte-wise feeding is an additional direct check", "the synchronous entry is the same collectEventsFromInput code mainLoop calls; timer behaviour itself is covered by C05/C06"}

	if *hc.Replay != "" {
		var rp struct {
			Entry, Charset, Prefix string
			Chunks                 []string
		}
		if err := hc.LoadReplay(&rp); err != nil {
			fmt.Println(err)
			return
		}
		for _, e := range common.Entries() {
			if e.Name != rp.Entry {
				continue
			}
			p, _ := tcell.VerifNewParser(e.Ti, rp.Charset, 80, 24)
			r := &rig{p, e.Name, rp.Charset}
			var all []byte
			var ch [][]byte
			for _, c := range rp.Chunks {
				ch = append(ch, []byte(c))
				all = append(all, c...)
			}
			a, f, _ := r.run([]byte(rp.Prefix), [][]byte{all})
			fmt.Printf("one read : %s\n  timeout : %s\n", a, f)
			a, f, _ = r.run([]byte(rp.Prefix), ch)
			fmt.Printf("chunked  : %s\n  timeout : %s\n", a, f)
		}
		return
	}

	entries := common.Entries()
	// input-signature classes
	type cls struct {
		rep   common.Entry
		names []string
	}
	classes := map[string]*cls{}
	var order []string
	for _, e := range entries {
		p, err := tcell.VerifNewParser(e.Ti, "UTF-8", 80, 24)
		if err != nil {
			continue
		}
		tab := p.KeyTable()
		var ks []string
		for k, v := range tab {
			ks = append(ks, fmt.Sprintf("%q=%d/%d", k, v.Key, v.Mod))
		}
		sort.Strings(ks)
		key := fmt.Sprintf("%v|%v|%s", p.HasMouse(), p.HasClipboard(), strings.Join(ks, ","))
		c, ok := classes[key]
		if !ok {
			c = &cls{rep: e}
			classes[key] = c
			order = append(order, key)
		}
		c.names = append(c.names, e.Name)
	}
	w.R.Scenarios["entries"] = len(entries)
	w.R.Scenarios["input_signature_classes"] = len(classes)

	var todo []common.Entry
	if hc.Thorough() {
		todo = entries
	} else {
		for _, k := range order {
			todo = append(todo, classes[k].rep)
		}
	}
	for _, e := range todo {
		if w.Expired() {
			break
		}
		runEntry(w, e)
	}
	w.Finish()
}

var legacyDone bool

func runEntry(w *hc.W, e common.Entry) {
	p, err := tcell.VerifNewParser(e.Ti, "UTF-8", 80, 24)
	if err != nil {
		return
	}
	r := &rig{p, e.Name, "UTF-8"}
	main := e.Name == "xterm-256color"
	// 1a
	L := 3
	if main {
		L = 4
	}
	if hc.Thorough() {
		L++
	}
	enumerate(sigma, L, hc.Mine, func(s []byte) bool {
		if len(s) == 1 && *hc.Shard != 0 {
			return true
		}
		checkString(w, r, "bytes", nil, s)
		return w.ViolationSigs() < 12
	})
	// 1b: only terminals that parse OSC 52 replies have the deep parser
	if p.HasClipboard() && (main || hc.Thorough()) {
		alpha := deepQ
		if hc.Thorough() && main {
			alpha = deepT
		}
		enumerate(alpha, 9, hc.Mine, func(s []byte) bool {
			if len(s) == 1 && *hc.Shard != 0 {
				return true
			}
			checkString(w, r, "deep", nil, s)
			return w.ViolationSigs() < 12
		})
	}
	// 1c: from the state after every proper prefix of every token
	toks := tokens(e, p)
	seenPrefix := map[string]bool{}
	Lc := 2
	if hc.Thorough() {
		Lc = 3
	}
	pi := 0
	for _, t := range toks {
		for n := 1; n < len(t.b); n++ {
			pre := t.b[:n]
			if seenPrefix[string(pre)] {
				continue
			}
			seenPrefix[string(pre)] = true
			pi++
			if !hc.Mine(pi) {
				continue
			}
			if !main && !hc.Thorough() && pi%4 != 0 {
				// quick tier: the full prefix set on the main entry, every 4th elsewhere
				continue
			}
			enumerate(sigma, Lc, func(int) bool { return true }, func(s []byte) bool {
				checkString(w, r, "midtoken", pre, s)
				return w.ViolationSigs() < 12
			})
		}
	}
	w.Count("midtoken_start_states", int64(len(seenPrefix)))
	// 2: token strings
	// single-token behaviour from the initial state
	type single struct {
		evs      []ri.Ev
		selfDone bool
	}
	sing := make([]single, len(toks))
	table := p.KeyTable()
	_, hasPaste := table["\x1b[200~"]
	for i, t := range toks {
		a, f, _ := r.run(nil, [][]byte{t.b})
		sing[i] = single{f.evs, a.pending == "" && !a.esc && len(a.evs) == len(f.evs)}
		supported := t.need == "" || (t.need == "mouse" && p.HasMouse()) || (t.need == "clipboard" && p.HasClipboard()) || (t.need == "paste" && hasPaste)
		// a token that is also (a prefix of) one of the description's own keys has the
		// description's reading; C03 checks those
		_, isKey := table[string(t.b)]
		if t.want != nil && supported && !(isKey && t.need == "" && !strings.HasPrefix(t.name, "Key")) {
			w.R.Evaluations++
			norm := append([]ri.Ev{}, f.evs...)
			for k := range norm {
				if norm[k].Kind == "key" && norm[k].Key != tcell.KeyRune {
					norm[k].Rune = 0
				}
			}
			if !ri.EqEvs(norm, t.want) {
				w.Violation("token:"+t.name, fmt.Sprintf("%s: token %s = %s decodes to %s, the protocol says %s", r.entry, t.name, q(t.b), f, state{evs: t.want}),
					map[string]interface{}{"Entry": r.entry, "Charset": "UTF-8", "Prefix": "", "Chunks": []string{string(t.b)}})
			}
		}
	}
	// a token delimits itself when nothing of it is left pending; a lone ESC does so too when
	// what follows is a report that cannot carry the Alt modifier (focus, mouse, paste bracket,
	// clipboard reply): "a recognised sequence never swallows or corrupts bytes that precede
	// or follow it" - the Esc is a key press of its own and must not leak onto a later key
	isReport := func(i int) bool {
		if len(sing[i].evs) == 0 || !sing[i].selfDone {
			return false
		}
		for _, e := range sing[i].evs {
			if e.Kind == "key" {
				return false
			}
		}
		return true
	}
	delimited := func(ix []int, k int) bool {
		if k == len(ix)-1 || sing[ix[k]].selfDone {
			return true
		}
		return toks[ix[k]].name == "lone-esc" && isReport(ix[k+1])
	}
	ti := 0
	maxTok := 3
	for a := range toks {
		for b := -1; b < len(toks); b++ {
			ti++
			if !hc.Mine(ti) {
				continue
			}
			for c := -1; c < len(toks); c++ {
				if b < 0 && c >= 0 {
					continue
				}
				seqIdx := []int{a}
				if b >= 0 {
					seqIdx = append(seqIdx, b)
				}
				if c >= 0 {
					seqIdx = append(seqIdx, c)
				}
				if len(seqIdx) > maxTok {
					continue
				}
				var s []byte
				var names []string
				comp := true
				var want []ri.Ev
				for k, ix := range seqIdx {
					s = append(s, toks[ix].b...)
					names = append(names, toks[ix].name)
					if !delimited(seqIdx, k) {
						comp = false
					}
					want = append(want, sing[ix].evs...)
				}
				// mouse state crosses tokens: press/motion pairs are covered by C12; keep the
				// compositional claim for strings without a button-state-dependent token
				checkString(w, r, "tokens", nil, s)
				if (names[0] == "invalid-ff" || names[0] == "lead-c3") && len(seqIdx) > 1 &&
					!(names[0] == "lead-c3" && toks[seqIdx[1]].b[0]&0xc0 == 0x80) { // (c3 9b is a character: the 8-bit CSI completes the lead byte)
					// a stray byte that is no text (invalid, or a lead byte whose character never
					// completes - no token starts with a continuation byte) in front of recognised
					// sequences: whatever becomes of it, "a recognised sequence never swallows or
					// corrupts bytes that precede or follow it" - the sequences behind it decode
					// to their own events, at the latest once the timeout has passed
					ok := true
					var tail []ri.Ev
					for k := 1; k < len(seqIdx); k++ {
						if !delimited(seqIdx, k) || (toks[seqIdx[k]].need != "" && !isReport(seqIdx[k])) {
							ok = false
						}
						tail = append(tail, sing[seqIdx[k]].evs...)
					}
					if ok && len(tail) > 0 {
						// (a tail that does not compose on its own is the compose oracle's business)
						_, tf, _ := r.run(nil, [][]byte{s[len(toks[a].b):]})
						ok = ri.EqEvs(tf.evs, tail)
					}
					if ok && len(tail) > 0 {
						// ... and without waiting for the escape timeout: the byte in front is no
						// text whatever follows ("decoding never stalls": with input arriving
						// faster than the timeout the wait would never end)
						af, _, _ := r.run(nil, [][]byte{s})
						if af.pending != "" && sing[seqIdx[len(seqIdx)-1]].selfDone { // (a last token that is itself unfinished may wait)
							w.Violation("held-after:"+names[0], fmt.Sprintf("%s: %s after the stray byte %s: after the read of %s nothing more can complete, yet %d bytes stay buffered until the escape timeout (%s); input that keeps arriving re-arms the timeout, so complete keys behind a stray byte are withheld without bound", r.entry, strings.Join(names[1:], " "), q(toks[a].b), q(s), len(af.pending), af),
								map[string]interface{}{"Entry": r.entry, "Charset": "UTF-8", "Prefix": "", "Chunks": []string{string(s)}})
						}
					}
					if ok && len(tail) > 0 {
						w.R.Evaluations++
						_, f, _ := r.run(nil, [][]byte{s})
						if len(f.evs) < len(tail) || !ri.EqEvs(f.evs[len(f.evs)-len(tail):], tail) {
							w.Violation("swallowed-after:"+names[0]+":"+strings.Join(names[1:], ","), fmt.Sprintf("%s: %s after the stray byte %s: %s decodes to %s, but what follows the stray byte decodes on its own to %s", r.entry, strings.Join(names[1:], " "), q(toks[a].b), q(s), f, state{evs: tail}),
								map[string]interface{}{"Entry": r.entry, "Charset": "UTF-8", "Prefix": "", "Chunks": []string{string(s)}})
						}
					}
				}
				if comp {
					w.R.Evaluations++
					_, f, _ := r.run(nil, [][]byte{s})
					if !ri.EqEvs(f.evs, want) {
						// shrink: drop tokens while the composition still fails
						fails := func(ix []int) bool {
							var s []byte
							var want []ri.Ev
							for k, i := range ix {
								if !delimited(ix, k) {
									return false
								}
								s = append(s, toks[i].b...)
								want = append(want, sing[i].evs...)
							}
							_, f, _ := r.run(nil, [][]byte{s})
							return !ri.EqEvs(f.evs, want)
						}
						min := append([]int{}, seqIdx...)
						for i := 0; i < len(min) && len(min) > 1; i++ {
							t := append(append([]int{}, min[:i]...), min[i+1:]...)
							if fails(t) {
								min = t
								i--
							}
						}
						var mn []string
						var ms []byte
						var mw []ri.Ev
						for _, i := range min {
							mn = append(mn, toks[i].name)
							ms = append(ms, toks[i].b...)
							mw = append(mw, sing[i].evs...)
						}
						_, mf, _ := r.run(nil, [][]byte{ms})
						w.Violation("compose:"+strings.Join(mn, ","), fmt.Sprintf("%s: token string %v = %s decodes to %s, but the tokens alone decode to %s (minimal; found in %v)", r.entry, mn, q(ms), mf, state{evs: mw}, names),
							map[string]interface{}{"Entry": r.entry, "Charset": "UTF-8", "Prefix": "", "Chunks": []string{string(ms)}})
					}
				}
			}
		}
	}
	// 3: legacy multi-byte character sets: a byte that starts no character (or a lead byte whose
	// character never completes: ESC is no trail byte anywhere) in front of a recognised sequence
	if !legacyDone && p.HasMouse() && hasPaste && hc.Mine(0) {
		legacyDone = true
		for _, cs := range []string{"GBK", "GB18030", "Big5", "EUC-KR", "EUC-JP", "Shift_JIS", "ISO8859-1", "KOI8-R", "US-ASCII"} {
			lp, err := tcell.VerifNewParser(e.Ti, cs, 80, 24)
			if err != nil {
				w.Note("C02 legacy part: %s: %v", cs, err)
				continue
			}
			lr := &rig{lp, e.Name, cs}
			// ESC followed by a byte that is no text, and a lead byte followed by DEL (no trail
			// byte in any of these sets)
			for b0 := 0x80; b0 <= 0xff; b0++ {
				checkString(w, lr, "legacy", nil, []byte{0x1b, byte(b0)})
				checkString(w, lr, "legacy", nil, []byte{0x1b, byte(b0), '\r'})
				w.R.Evaluations++
				_, df, _ := lr.run(nil, [][]byte{{byte(b0), 0x7f}})
				if n := len(df.evs); n == 0 || df.evs[n-1].Kind != "key" || (df.evs[n-1].Key != tcell.KeyBackspace2 && df.evs[n-1].Key != tcell.KeyBackspace) {
					w.Violation("swallowed-after:legacy-lead-del:"+cs, fmt.Sprintf("%s/%s: %s decodes to %s: the DEL behind the byte %#x is gone", e.Name, cs, q([]byte{byte(b0), 0x7f}), df, b0),
						map[string]interface{}{"Entry": e.Name, "Charset": cs, "Prefix": "", "Chunks": []string{string([]byte{byte(b0), 0x7f})}})
				}
			}
			for _, tail := range []string{e.Ti.KeyUp, "\x1b[I", "\x1b[<0;3;4M", "\x1b[200~", "\x1bx"} {
				_, tf, _ := lr.run(nil, [][]byte{[]byte(tail)})
				for b0 := 0x80; b0 <= 0xff; b0++ {
					w.R.Evaluations++
					in := append([]byte{byte(b0)}, tail...)
					checkString(w, lr, "legacy", nil, in)
					_, f, _ := lr.run(nil, [][]byte{in})
					if len(f.evs) < len(tf.evs) || !ri.EqEvs(f.evs[len(f.evs)-len(tf.evs):], tf.evs) {
						w.Violation("swallowed-after:legacy-lead:"+cs, fmt.Sprintf("%s/%s: %s decodes to %s, but %s on its own decodes to %s: the byte in front swallows or corrupts the sequence behind it", e.Name, cs, q(in), f, q([]byte(tail)), tf),
							map[string]interface{}{"Entry": e.Name, "Charset": cs, "Prefix": "", "Chunks": []string{string(in)}})
					}
				}
			}
		}
	}
	if len(w.R.Samples) < 3 {
		w.Sample(map[string]interface{}{"entry": e.Name, "tokens": len(toks), "example_token_string": "\x1b[<0;3;4M" + "\x1b]52;c;QUJD\a" + "a"})
	}
}
