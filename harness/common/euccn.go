package common

import (
	"errors"
	"unicode/utf8"

	xenc "golang.org/x/text/encoding"
	"golang.org/x/text/encoding/simplifiedchinese"
	"golang.org/x/text/transform"
)

// EUCCN is the character set a locale such as zh_CN.GB2312 names: GB 2312-80 in its EUC
// form (ASCII, and two bytes a1..f7 / a1..fe for the 94x94 plane). It is defined here
// independently of the library's registry, as the restriction of the GBK code table
// (of which it is the subset with both bytes >= a1) to that range.
var EUCCN xenc.Encoding = eucCN{}

// RefCodec returns the codec that defines the named character set for the checks: the
// x/text codec the library registers under that name, except where the name is the one a
// locale uses for another set than the registered codec implements.
func RefCodec(name string, registered xenc.Encoding) xenc.Encoding {
	if name == "GB2312" {
		return EUCCN
	}
	return registered
}

// EUCCNAmbiguous: the code points at which the GBK table (code page 936) and GB 2312-80
// proper (as in glibc's and Python's gb2312 codecs) disagree - positions the standard left
// unassigned and GBK filled (small roman numerals, vertical forms, a few pinyin letters)
// and the two re-mapped punctuation marks a1a4 / a1aa. Cross-checked once against Python's
// codec over the whole BMP; the checks leave these 38 runes out for this set.
func EUCCNAmbiguous(r rune) bool {
	switch {
	case r >= 0x2170 && r <= 0x2179, r == 0xfe31, r >= 0xfe33 && r <= 0xfe44:
		return true
	}
	switch r {
	case 0x00b7, 0x0144, 0x0148, 0x01f9, 0x0251, 0x0261, 0x2014, 0x2015, 0x30fb:
		return true
	}
	return false
}

type eucCN struct{}

func (eucCN) NewDecoder() *xenc.Decoder { return simplifiedchinese.GBK.NewDecoder() }
func (eucCN) NewEncoder() *xenc.Encoder {
	return &xenc.Encoder{Transformer: &eucCNEncoder{}}
}

var errNotInSet = errors.New("rune not in GB 2312")

type eucCNEncoder struct{ transform.NopResetter }

func (e *eucCNEncoder) Transform(dst, src []byte, atEOF bool) (nDst, nSrc int, err error) {
	gbk := simplifiedchinese.GBK.NewEncoder()
	for nSrc < len(src) {
		r, n := utf8.DecodeRune(src[nSrc:])
		if r == utf8.RuneError && n == 1 {
			if !atEOF && !utf8.FullRune(src[nSrc:]) {
				return nDst, nSrc, transform.ErrShortSrc
			}
			return nDst, nSrc, errNotInSet
		}
		var out [4]byte
		gbk.Reset()
		nd, _, err := gbk.Transform(out[:], src[nSrc:nSrc+n], true)
		if err != nil {
			return nDst, nSrc, errNotInSet
		}
		if (nd == 1 && out[0] >= 0x80) || (nd == 2 && (out[0] < 0xa1 || out[0] > 0xf7 || out[1] < 0xa1)) || nd > 2 {
			return nDst, nSrc, errNotInSet
		}
		if nDst+nd > len(dst) {
			return nDst, nSrc, transform.ErrShortDst
		}
		copy(dst[nDst:], out[:nd])
		nDst += nd
		nSrc += n
	}
	return nDst, nSrc, nil
}
