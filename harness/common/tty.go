package common

import (
	"errors"
	"fmt"
	"sync"

	"github.com/gdamore/tcell/v2"

	"verif/ref/vt"
)

// LogEntry is one call made on the Tty.
type LogEntry struct {
	Op  string // Start Stop Drain Close NotifyResize(nil) NotifyResize(cb) WindowSize Read Write
	N   int    // bytes
	Gid int    // 0 = harness goroutine, 1 = other
}

// FakeTty implements tcell.Tty: output goes to the reference terminal, input is fed by the
// harness, every call is logged.
type FakeTty struct {
	mu      sync.Mutex
	cond    *sync.Cond
	Term    *vt.Term
	W, H    int
	Log     []LogEntry
	Blocks  [][]byte // every Write
	in      [][]byte
	drained bool
	closed  bool
	started bool
	cb      func()
	ReadErr error // returned by the next Read (once)
	Writes  int
	WinErr  error
	// OnWrite, if set, is called (with the lock released) after every Write.
	OnWrite func(b []byte)
	// hooks for the deterministic scheduler build: when non-nil, Read parks through it
	ReadHook func() (data []byte, err error, ok bool)
}

func NewFakeTty(term *vt.Term, w, h int) *FakeTty {
	t := &FakeTty{Term: term, W: w, H: h}
	t.cond = sync.NewCond(&t.mu)
	return t
}

func (t *FakeTty) log(op string, n int) {
	t.Log = append(t.Log, LogEntry{Op: op, N: n})
}

func (t *FakeTty) Start() error {
	t.mu.Lock()
	defer t.mu.Unlock()
	t.log("Start", 0)
	t.started = true
	t.drained = false
	return nil
}

func (t *FakeTty) Stop() error {
	t.mu.Lock()
	defer t.mu.Unlock()
	t.log("Stop", 0)
	t.started = false
	return nil
}

func (t *FakeTty) Drain() error {
	t.mu.Lock()
	defer t.mu.Unlock()
	t.log("Drain", 0)
	t.drained = true
	t.cond.Broadcast()
	return nil
}

func (t *FakeTty) Close() error {
	t.mu.Lock()
	defer t.mu.Unlock()
	t.log("Close", 0)
	t.closed = true
	t.cond.Broadcast()
	return nil
}

func (t *FakeTty) NotifyResize(cb func()) {
	t.mu.Lock()
	defer t.mu.Unlock()
	if cb == nil {
		t.log("NotifyResize(nil)", 0)
	} else {
		t.log("NotifyResize(cb)", 0)
	}
	t.cb = cb
}

func (t *FakeTty) WindowSize() (tcell.WindowSize, error) {
	t.mu.Lock()
	defer t.mu.Unlock()
	t.log("WindowSize", 0)
	if t.WinErr != nil {
		return tcell.WindowSize{}, t.WinErr
	}
	return tcell.WindowSize{Width: t.W, Height: t.H}, nil
}

func (t *FakeTty) Read(p []byte) (int, error) {
	t.mu.Lock()
	defer t.mu.Unlock()
	for {
		if t.ReadErr != nil {
			e := t.ReadErr
			t.ReadErr = nil
			t.log("Read(err)", 0)
			return 0, e
		}
		if len(t.in) > 0 {
			n := copy(p, t.in[0])
			if n < len(t.in[0]) {
				t.in[0] = t.in[0][n:]
			} else {
				t.in = t.in[1:]
			}
			t.log("Read", n)
			t.cond.Broadcast()
			return n, nil
		}
		if t.closed {
			t.log("Read(closed)", 0)
			return 0, errors.New("tty closed")
		}
		if t.drained {
			t.log("Read(drained)", 0)
			return 0, nil
		}
		t.cond.Wait()
	}
}

func (t *FakeTty) Write(p []byte) (int, error) {
	t.mu.Lock()
	t.log("Write", len(p))
	cp := append([]byte(nil), p...)
	t.Blocks = append(t.Blocks, cp)
	t.Writes++
	if t.Term != nil {
		t.Term.Write(cp)
	}
	f := t.OnWrite
	t.cond.Broadcast()
	t.mu.Unlock()
	if f != nil {
		f(cp)
	}
	return len(p), nil
}

// Inject queues input bytes (one read chunk).
func (t *FakeTty) Inject(b []byte) {
	t.mu.Lock()
	t.in = append(t.in, append([]byte(nil), b...))
	t.cond.Broadcast()
	t.mu.Unlock()
}

// SetSize changes the window size the terminal reports (and the reference terminal).
func (t *FakeTty) SetSize(w, h int) {
	t.mu.Lock()
	t.W, t.H = w, h
	if t.Term != nil {
		t.Term.Resize(w, h)
	}
	t.mu.Unlock()
}

// Notify invokes the registered resize callback, as the terminal driver would on SIGWINCH.
func (t *FakeTty) Notify() bool {
	t.mu.Lock()
	cb := t.cb
	t.mu.Unlock()
	if cb == nil {
		return false
	}
	cb()
	return true
}

// WaitWrites blocks until the number of Write calls exceeds n (the caller holds no lock).
func (t *FakeTty) WaitWrites(n int, giveUp func() bool) bool {
	t.mu.Lock()
	defer t.mu.Unlock()
	for t.Writes <= n {
		if giveUp != nil && giveUp() {
			return false
		}
		t.cond.Wait()
	}
	return true
}

func (t *FakeTty) Snapshot() (writes int, logLen int) {
	t.mu.Lock()
	defer t.mu.Unlock()
	return t.Writes, len(t.Log)
}

func (t *FakeTty) LogCopy() []LogEntry {
	t.mu.Lock()
	defer t.mu.Unlock()
	return append([]LogEntry(nil), t.Log...)
}

func (t *FakeTty) Kick() {
	t.mu.Lock()
	t.cond.Broadcast()
	t.mu.Unlock()
}

func (e LogEntry) String() string { return fmt.Sprintf("%s(%d)", e.Op, e.N) }
