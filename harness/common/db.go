// Package common holds helpers shared by worker programs that enumerate the terminal
// database.
package common

import (
	"sort"

	"github.com/gdamore/tcell/v2/encoding"
	"github.com/gdamore/tcell/v2/terminfo"
	_ "github.com/gdamore/tcell/v2/terminfo/base"
	_ "github.com/gdamore/tcell/v2/terminfo/extended"
)

func init() { encoding.Register() }

// Entry is one distinct database entry with every name that resolves to it.
type Entry struct {
	Name  string
	Names []string
	Ti    *terminfo.Terminfo // private copy
}

// Entries lists the distinct registered entries (from the live database, so additions
// are picked up), each as a private copy, sorted by primary name.
func Entries() []Entry {
	snap := terminfo.VerifSnapshot()
	by := map[*terminfo.Terminfo]*Entry{}
	for n, t := range snap {
		e, ok := by[t]
		if !ok {
			e = &Entry{Name: t.Name, Ti: t}
			by[t] = e
		}
		e.Names = append(e.Names, n)
	}
	var out []Entry
	for _, e := range by {
		sort.Strings(e.Names)
		out = append(out, *e)
	}
	sort.Slice(out, func(i, j int) bool { return out[i].Name < out[j].Name })
	return out
}
