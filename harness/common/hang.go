package common

import (
	"syscall"
	"time"
)

// Hang detection without a short wall-clock oracle. A call is declared hung only if it has
// not returned after at least minWait AND this process has used (almost) no CPU for idleFor:
// every goroutine is blocked. A machine under heavy load makes the call slow but the process
// keeps accruing CPU time whenever it is given any, so slowness is never reported as a hang.
// (A call that spins for ever is not caught here; the driver's hard limit is.)
const (
	minWait = 120 * time.Second
	idleFor = 60 * time.Second
)

func cpuTime() time.Duration {
	var ru syscall.Rusage
	if err := syscall.Getrusage(syscall.RUSAGE_SELF, &ru); err != nil {
		return 0
	}
	return time.Duration(ru.Utime.Nano() + ru.Stime.Nano())
}

// WatchIdle calls onHang once if stop is not closed before the hang criterion is met.
func WatchIdle(stop <-chan struct{}, onHang func()) {
	go func() {
		start := time.Now()
		lastCPU, lastChange := cpuTime(), start
		tick := time.NewTicker(time.Second)
		defer tick.Stop()
		for {
			select {
			case <-stop:
				return
			case now := <-tick.C:
				if c := cpuTime(); c-lastCPU > 30*time.Millisecond {
					lastCPU, lastChange = c, now
				}
				if now.Sub(start) > minWait && now.Sub(lastChange) > idleFor {
					onHang()
					return
				}
			}
		}
	}()
}

// Finishes runs fn on its own goroutine and reports whether it returned (false: hung).
func Finishes(fn func()) bool {
	done := make(chan struct{})
	hung := make(chan struct{})
	go func() { fn(); close(done) }()
	WatchIdle(done, func() { close(hung) })
	select {
	case <-done:
		return true
	case <-hung:
		return false
	}
}
