// C15 — TPuts strips only padding; TGoto and TColor are right for every terminal.
// Engine C: all strings over the padding alphabet up to a length (TPuts, with the virtual
// clock recording sleeps); all entries x all positions (TGoto) and colour pairs (TColor)
// decoded by per-family decoders.
package main

import (
	"bytes"
	"fmt"
	"os"
	"path/filepath"
	"regexp"
	"strings"
	"time"

	"github.com/gdamore/tcell/v2/terminfo"
	"github.com/gdamore/tcell/v2/verifrt/vtime"

	"verif/harness/common"
	"verif/hc"
	"verif/ref/vt"
)

var w *hc.W

var reWell = regexp.MustCompile(`^[0-9]+(\.[0-9])?(\*/?|/\*?)?$`)

// delayOf returns the delay in microseconds of a well-formed padding specification.
func delayOf(spec string) time.Duration {
	us := 0
	frac := false
	for _, c := range spec {
		switch {
		case c >= '0' && c <= '9':
			if frac {
				us += int(c-'0') * 100
				return time.Duration(us) * time.Microsecond
			}
			us = us*10 + int(c-'0')*1000
			us = us / 1 // keep integer milliseconds in thousands
		case c == '.':
			frac = true
		default:
			return time.Duration(us) * time.Microsecond
		}
	}
	return time.Duration(us) * time.Microsecond
}

// msOf parses the integer part properly (delayOf above accumulates digit by digit).
func msOf(spec string) time.Duration {
	ms, tenth := 0, 0
	i := 0
	for i < len(spec) && spec[i] >= '0' && spec[i] <= '9' {
		ms = ms*10 + int(spec[i]-'0')
		i++
	}
	if i < len(spec) && spec[i] == '.' && i+1 < len(spec) && spec[i+1] >= '0' && spec[i+1] <= '9' {
		tenth = int(spec[i+1] - '0')
	}
	return time.Duration(ms)*time.Millisecond + time.Duration(tenth)*100*time.Microsecond
}

// acceptable returns every output the statement allows for s, and whether every padding
// specification in s is well formed (so that the sleep is determined), and that sleep.
func acceptable(s string) (outs map[string]bool, determined bool, sleep time.Duration) {
	outs = map[string]bool{}
	determined = true
	var rec func(done, rest string)
	rec = func(done, rest string) {
		i := strings.Index(rest, "$<")
		if i < 0 {
			outs[done+rest] = true
			return
		}
		pre, after2 := rest[:i], rest[i+2:]
		j := strings.Index(after2, ">")
		if j < 0 {
			outs[done+rest] = true // unterminated: verbatim
			return
		}
		spec, after := after2[:j], after2[j+1:]
		if reWell.MatchString(spec) {
			rec(done+pre, after)
			return
		}
		determined = false
		rec(done+pre, after)             // treated as padding and removed
		rec(done+pre+"$<", after2)       // "$<" kept, scanning resumes behind it
		rec(done+pre+"$<"+spec+">", after) // kept verbatim as a whole
	}
	rec("", s)
	if determined {
		rest := s
		for {
			i := strings.Index(rest, "$<")
			if i < 0 {
				break
			}
			a := rest[i+2:]
			j := strings.Index(a, ">")
			if j < 0 {
				break
			}
			sleep += msOf(a[:j])
			rest = a[j+1:]
		}
	}
	return
}

func tputs() {
	alpha := []byte("$<>.15*/a")
	L := 7
	if hc.Thorough() {
		L = 8
	}
	tis := []*terminfo.Terminfo{{Name: "nopad"}, {Name: "pad", PadChar: "\x00"}}
	buf := make([]byte, L)
	idx := 0
	n := int64(0)
	nontriv := int64(0)
	var rec func(d int)
	var check func(s string)
	rec = func(d int) {
		if d > 0 {
			check(string(buf[:d]))
		}
		if d == L {
			return
		}
		for _, c := range alpha {
			buf[d] = c
			if d == 1 {
				idx++
				if !hc.Mine(idx) {
					continue
				}
			}
			rec(d + 1)
		}
	}
	check = func(s string) {
		{
			outs, det, sleep := acceptable(s)
			for _, ti := range tis {
				n++
				var out bytes.Buffer
				vtime.ResetSleep()
				func() {
					defer func() {
						if r := recover(); r != nil {
							w.Violation("tputs-panic", fmt.Sprintf("TPuts(%q) panicked: %v", s, r), map[string]string{"s": s})
						}
					}()
					ti.TPuts(&out, s)
				}()
				got, _ := vtime.Slept()
				if !outs[out.String()] {
					var acc []string
					for o := range outs {
						acc = append(acc, fmt.Sprintf("%q", o))
					}
					w.Violation("tputs-bytes:"+shape(s), fmt.Sprintf("TPuts(%q) wrote %q; acceptable: %s", s, out.String(), strings.Join(acc, " or ")), map[string]string{"s": s, "pad": ti.PadChar})
				}
				if ti.PadChar == "" && got != 0 {
					w.Violation("tputs-sleep-nopad", fmt.Sprintf("TPuts(%q) slept %v on a terminal without a pad character", s, got), map[string]string{"s": s})
				}
				if ti.PadChar != "" && det && got != sleep {
					w.Violation("tputs-sleep:"+shape(s), fmt.Sprintf("TPuts(%q) slept %v, the padding specifications add up to %v", s, got, sleep), map[string]string{"s": s, "pad": ti.PadChar})
				}
			}
			if strings.Contains(s, "$<") {
				nontriv++
			}
		}
	}
	rec(0)
	if *hc.Shard == 0 {
		// well-formed specifications longer than the enumeration bound: many integer and
		// fraction digits (the delay is the number written, whatever its length)
		for _, sp := range []string{"$<300.0000000>", "$<1.50000000000>", "$<0.000001>", "$<0.0000001>", "$<12.3456789*/>", "a$<0000000005>b", "$<100.000000>$<100.0000000>", "$<99999>"} {
			check(sp)
		}
	}
	w.R.Evaluations += n
	w.AddDistinct(nontriv)
	w.R.Scenarios["tputs"] = map[string]interface{}{"alphabet": string(alpha), "max_len": L, "cases_this_shard": n}
	w.Sample(map[string]interface{}{"tputs": "a$<5.5*/>1$<", "acceptable": "a1$<", "sleep_with_pad": "5.5ms"})
}

// shape abstracts a string to its padding structure for stable signatures.
func shape(s string) string {
	var b strings.Builder
	for _, c := range s {
		switch {
		case c >= '0' && c <= '9':
			if !strings.HasSuffix(b.String(), "9") {
				b.WriteByte('9')
			}
		case c == 'a':
			if !strings.HasSuffix(b.String(), "a") {
				b.WriteByte('a')
			}
		default:
			b.WriteRune(c)
		}
	}
	r := b.String()
	if len(r) > 12 {
		r = r[:12]
	}
	return r
}

var rePad = regexp.MustCompile(`\$<[0-9.*/]*>`)

func tgoto() {
	max := 300
	for ei, e := range common.Entries() {
		if !hc.Mine(ei) {
			continue
		}
		ti := e.Ti
		sc := ti.SetCursor
		var expect func(col, row int) (string, bool)
		switch {
		case strings.HasPrefix(sc, "\x1b[%i%p1%d;%p2%dH"):
			expect = func(col, row int) (string, bool) { return fmt.Sprintf("\x1b[%d;%dH", row+1, col+1), true }
		case strings.HasPrefix(sc, "\x1bY"):
			expect = func(col, row int) (string, bool) {
				return "\x1bY" + string([]byte{byte(row + 32), byte(col + 32)}), row <= 223 && col <= 223
			}
		case strings.HasPrefix(sc, "\x1b="):
			expect = func(col, row int) (string, bool) {
				return "\x1b=" + string([]byte{byte(row + 32), byte(col + 32)}), row <= 223 && col <= 223
			}
		case strings.HasPrefix(sc, "\x1b&a"):
			expect = func(col, row int) (string, bool) { return fmt.Sprintf("\x1b&a%dy%dC", row, col), true }
		default:
			w.Violation("tgoto-family:"+e.Name, fmt.Sprintf("%s: cursor addressing string %q belongs to no known addressing convention", e.Name, sc), nil)
			continue
		}
		for row := 0; row <= max; row++ {
			for col := 0; col <= max; col++ {
				want, ok := expect(col, row)
				if !ok {
					continue
				}
				w.R.Evaluations++
				got := rePad.ReplaceAllString(ti.TGoto(col, row), "")
				if got != want {
					w.Violation("tgoto:"+e.Name, fmt.Sprintf("%s: TGoto(col=%d,row=%d) = %q, the terminal's convention gives %q", e.Name, col, row, got, want), map[string]interface{}{"entry": e.Name, "col": col, "row": row})
					row = max + 1
					break
				}
			}
		}
		w.AddDistinct(int64((max + 1) * (max + 1)))
	}
	w.Sample(map[string]interface{}{"tgoto": "xterm (col=79,row=23)", "expect": "ESC[24;80H"})
}

// decodeColors feeds s to the reference terminal and returns the selected fg/bg.
func decodeColors(s string) (fg, bg vt.Color, errs []string) {
	t := vt.New(4, 1, nil, vt.Quirks{})
	t.Write([]byte(s))
	return t.Pen.Fg, t.Pen.Bg, t.Errors
}

func tcolor() {
	for ei, e := range common.Entries() {
		if !hc.Mine(ei) {
			continue
		}
		ti := e.Ti
		if ti.Colors == 0 || ti.SetFg == "" {
			// no colours: every request must be elided
			for _, p := range [][2]int{{-1, -1}, {0, 0}, {7, 7}, {255, 300}} {
				w.R.Evaluations++
				if s := ti.TColor(p[0], p[1]); s != "" && ti.Colors == 0 {
					w.Violation("tcolor-mono:"+e.Name, fmt.Sprintf("%s has no colours but TColor(%d,%d) = %q", e.Name, p[0], p[1], s), nil)
				}
			}
			continue
		}
		sgr := strings.HasPrefix(ti.SetFg, "\x1b[") && strings.HasSuffix(rePad.ReplaceAllString(ti.SetFg, ""), "m")
		if !sgr {
			w.Count("tcolor_entries_not_sgr", 1)
			continue
		}
		bad := 0
		for fg := -1; fg <= 300 && bad < 3; fg++ {
			for bg := -1; bg <= 300; bg++ {
				w.R.Evaluations++
				s := rePad.ReplaceAllString(ti.TColor(fg, bg), "")
				wf, wb := fg, bg
				if ti.Colors == 8 {
					if wf > 7 && wf < 16 {
						wf -= 8
					}
					if wb > 7 && wb < 16 {
						wb -= 8
					}
				}
				if wf >= ti.Colors {
					wf = -1
				}
				if wb >= ti.Colors {
					wb = -1
				}
				gf, gb, errs := decodeColors(s)
				exp := func(v int) vt.Color {
					if v < 0 {
						return vt.Color{}
					}
					return vt.Color{Kind: vt.Indexed, V: int32(v)}
				}
				if len(errs) > 0 || gf != exp(wf) || gb != exp(wb) {
					w.Violation("tcolor:"+e.Name, fmt.Sprintf("%s (%d colours): TColor(%d,%d) = %q selects fg=%v bg=%v (errors %v), want fg=%v bg=%v", e.Name, ti.Colors, fg, bg, s, gf, gb, errs, exp(wf), exp(wb)), map[string]interface{}{"entry": e.Name, "fg": fg, "bg": bg})
					bad++
					break
				}
				if wf >= 0 || wb >= 0 {
					w.AddDistinct(1)
				}
			}
		}
	}
	w.Sample(map[string]interface{}{"tcolor": "xterm (8 colours) fg=9 bg=-1", "expect": "selects palette entry 1, background untouched"})
}

// shippedPad: "only when the terminal description has a pad character" - for the built-in
// terminals the description is the source file: the entry a lookup returns sleeps on a
// padding specification exactly when its source declares a PadChar.
func shippedPad() {
	if *hc.Shard != 0 {
		return
	}
	dir := os.Getenv("VERIF_REPO_DIR")
	if dir == "" {
		dir = "/repo"
	}
	files, _ := filepath.Glob(filepath.Join(dir, "terminfo", "*", "*", "term.go"))
	entryRe := regexp.MustCompile(`(?s)&terminfo\.Terminfo\{(.*?)\n\t\}\)`)
	nameRe := regexp.MustCompile(`(?m)^\s*Name:\s*"([^"]+)"`)
	padRe := regexp.MustCompile(`(?m)^\s*PadChar:\s*"([^"]*)"`)
	n := 0
	for _, f := range files {
		src, err := os.ReadFile(f)
		if err != nil {
			continue
		}
		for _, em := range entryRe.FindAllSubmatch(src, -1) {
			nm := nameRe.FindSubmatch(em[1])
			if nm == nil {
				continue
			}
			name := string(nm[1])
			declared := false
			if pm := padRe.FindSubmatch(em[1]); pm != nil && len(pm[1]) > 0 {
				declared = true
			}
			ti, err := terminfo.LookupTerminfo(name)
			if err != nil {
				continue // C14 reports unresolved names
			}
			n++
			w.R.Evaluations++
			var out bytes.Buffer
			vtime.ResetSleep()
			ti.TPuts(&out, "a$<20>b")
			got, _ := vtime.Slept()
			if (got != 0) != declared || out.String() != "ab" {
				w.Violation("tputs-sleep-shipped", fmt.Sprintf("%s: TPuts(\"a$<20>b\") on the built-in entry wrote %q and slept %v; its source declares a pad character: %v", name, out.String(), got, declared), map[string]string{"name": name})
			}
		}
	}
	w.R.Scenarios["shipped_entries_pad_checked"] = n
	if n < 30 {
		w.Violation("shipped-scan", fmt.Sprintf("only %d entries found under %s/terminfo: the source scan is broken", n, dir), nil)
	}
}

func main() {
	w = hc.Start("C15")
	w.R.Rule = "TPuts: every string up to length 7 (thorough 8) over {$ < > . 1 5 * / a} x {no pad character, NUL pad character}, output compared with the set of outputs the statement allows (well-formed $<n[.m][*][/]> removed, unterminated verbatim, ill-formed-but-terminated either way) and the virtual clock's recorded sleep with the sum of the specifications; TGoto: every database entry x (col,row) in 0..300^2 against the entry's addressing convention (ANSI CUP, ESC Y / ESC = offset-32 up to 223, HP ESC &a); TColor: every colour entry x (fg,bg) in -1..300^2 decoded by the reference terminal's SGR interpreter. distinct_nontrivial = TPuts strings containing $< + positions + colour pairs selecting at least one colour"
	w.R.Assumptions = []string{"package time inside terminfo.go is replaced by a virtual clock at build time (overlay), so sleeps are recorded, not waited for", "the addressing convention of an entry is recognised from the leading bytes of its cup string; expected bytes are then computed independently", "colour strings that are not SGR sequences (hpterm etc. have none) are not decoded"}
	if *hc.Replay != "" {
		fmt.Println("replay: see the description in the replay file; re-run ./vc C15")
		return
	}
	_ = delayOf
	tputs()
	shippedPad()
	tgoto()
	tcolor()
	w.Finish()
}
