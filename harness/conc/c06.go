package main

import (
	"fmt"
	"strings"

	"github.com/gdamore/tcell/v2"
	"github.com/gdamore/tcell/v2/verifrt"

	"verif/hc"
	"verif/ref/vt"
)

type c06p struct {
	op             string // fini | suspend
	e, c           int    // event-queue level, chunks offered
	polling        bool
	resize         bool
	errAt          int
	poster, drawer bool
	cycles         int
	refused        bool // a Resume() on the running screen (refused) precedes the shutdown call
	grown          bool // the window grows while the screen is suspended: the Resume has to report the new size
	escPending     bool // the last input before the shutdown call is ESC ESC: an Alt prefix is pending and half a sequence buffered
	transient      bool // the window has another size at the moment of Resume and is back afterwards
}

func (p c06p) String() string {
	return fmt.Sprintf("op=%s e=%d c=%d polling=%v resize=%v errAt=%d poster=%v drawer=%v cycles=%d refused-resume=%v", p.op, p.e, p.c, p.polling, p.resize, p.errAt, p.poster, p.drawer, p.cycles, p.refused)
}

var c06table []c06p
var c06transient, c06grown bool
var c06rig *rig

// restoredAtReturn replays everything written up to the moment the shutdown call returned
// into the reference terminal and checks that the terminal was handed back restored (the C04
// obligations, here under every explored interleaving), and that nothing was written after
// the tty had been stopped.
func restoredAtReturn(res *result) string {
	r := c06rig
	n, ok := res.ints["blocksAtReturn"]
	if r == nil || !ok {
		return ""
	}
	t := vt.New(8, 4, nil, vt.Quirks{})
	stopped := false
	for _, b := range r.tty.blocks[:n] {
		switch b.by {
		case "<stop>":
			stopped = true
			continue
		case "<start>":
			stopped = false
			continue
		}
		if stopped {
			return fmt.Sprintf("write-after-stop: %s wrote %q after the tty had been stopped", b.by, b.data)
		}
		t.Write(b.data)
	}
	if len(t.Errors) > 0 {
		return "malformed-output: " + t.Errors[0]
	}
	switch {
	case t.AltScreen:
		return "not-restored: the terminal is still on the alternate screen when the shutdown call returns"
	case !t.CursorVisible:
		return "not-restored: the cursor is still hidden when the shutdown call returns"
	case t.Pen.Fg != (vt.Color{}) || t.Pen.Bg != (vt.Color{}) || t.Pen.Bold || t.Pen.Reverse || t.Pen.UL != 0:
		return fmt.Sprintf("not-restored: colours/attributes are not reset when the shutdown call returns (%+v)", t.Pen)
	case t.KeypadApp:
		return "not-restored: keypad application mode is still on"
	case t.Pen.Link != "":
		return "not-restored: a hyperlink is still open when the shutdown call returns"
	}
	for _, m := range []int{1, 1000, 1002, 1003, 1006, 2004, 1004} {
		if t.Modes[m] {
			return fmt.Sprintf("not-restored: DEC private mode %d is still set when the shutdown call returns", m)
		}
	}
	if len(t.TitleStack) != 0 {
		return "not-restored: the saved title was not restored"
	}
	if t.PrintsOnMain > 0 {
		return fmt.Sprintf("not-restored: %d characters of screen content were painted on the terminal's main screen (outside the alternate screen) before the shutdown call returned", t.PrintsOnMain)
	}
	return ""
}

func c06Scenarios() []scenario {
	es := []int{0, 1, 9, 10}
	cs := []int{0, 1, 2, 10, 11, 12, 13}
	if hc.Thorough() {
		es = []int{0, 1, 2, 3, 4, 5, 6, 7, 8, 9, 10}
		cs = []int{0, 1, 2, 3, 4, 5, 6, 7, 8, 9, 10, 11, 12, 13}
	}
	var params []string
	add := func(p c06p) {
		c06table = append(c06table, p)
		params = append(params, fmt.Sprint(len(c06table)-1))
	}
	for _, op := range []string{"fini", "suspend"} {
		for _, e := range es {
			for _, c := range cs {
				for _, polling := range []bool{false, true} {
					add(c06p{op: op, e: e, c: c, polling: polling})
				}
			}
		}
		// resize pending, read errors, concurrent poster / drawer at the interesting fill levels
		for _, e := range []int{0, 10} {
			for _, c := range []int{0, 2, 12} {
				add(c06p{op: op, e: e, c: c, resize: true})
				add(c06p{op: op, e: e, c: c, poster: true, polling: true})
				add(c06p{op: op, e: e, c: c, drawer: true})
				for errAt := 1; errAt <= 3; errAt++ {
					add(c06p{op: op, e: e, c: c, errAt: errAt})
					add(c06p{op: op, e: e, c: c, errAt: errAt, polling: true})
				}
			}
		}
	}
	// Fini of a screen that is suspended at that moment (after 0 or 1 Suspend/Resume cycles):
	// the after-Fini obligations are the same
	for _, cyc := range []int{0, 1} {
		add(c06p{op: "suspend-fini", cycles: cyc, c: 1})
		if cyc == 0 { // (a second consumer would compete with the cycle's own polling for the events)
			add(c06p{op: "suspend-fini", cycles: cyc, c: 2, e: 10, polling: true})
		}
		add(c06p{op: "suspend-fini", cycles: cyc, c: 12, e: 10})
	}
	// input that ends in the middle of an escape sequence when the screen is suspended: what was
	// typed before the Suspend is gone with it, and must not change what is typed afterwards
	add(c06p{op: "suspend", escPending: true, cycles: 1})
	add(c06p{op: "suspend", escPending: true, cycles: 1, c: 2})
	// a redundant Resume() on a running screen is refused; the shutdown that follows must still return
	for _, op := range []string{"fini", "suspend"} {
		add(c06p{op: op, refused: true})
		add(c06p{op: op, refused: true, c: 2, e: 10})
		add(c06p{op: op, refused: true, c: 12, e: 10, polling: true})
	}
	add(c06p{op: "suspend", refused: true, cycles: 1, c: 1})
	// the window is smaller at the moment of Resume and back to its old size right after
	add(c06p{op: "suspend", cycles: 1, c: 1, grown: true})
	add(c06p{op: "suspend", cycles: 2, grown: true})
	add(c06p{op: "suspend", cycles: 1, c: 1, transient: true})
	add(c06p{op: "suspend-fini", cycles: 1, c: 1, transient: true})
	for _, cyc := range []int{1, 2} {
		add(c06p{op: "suspend", cycles: cyc, c: 1})
		add(c06p{op: "suspend", cycles: cyc, c: 2, e: 3, poster: true})
	}
	return []scenario{{name: "shutdown", params: params, bound: 2, caseCost: 1, prog: c06prog, check: c06check}}
}

func c06prog(ps string, res *result) func() {
	var idx int
	fmt.Sscan(ps, &idx)
	p := c06table[idx]
	return func() {
		c06transient = p.transient
		c06grown = p.grown
		r := newRig(4, 2)
		s := r.s
		// ---- deterministic prologue: reach the requested fill levels ----
		c06rig = r
		s.EnableMouse()
		s.EnablePaste()
		s.SetContent(0, 0, 'x', nil, tcell.StyleDefault.Foreground(tcell.ColorRed).Bold(true))
		s.ShowCursor(1, 1)
		s.Show()
		for s.HasPendingEvent() {
			s.PollEvent()
		}
		for i := 0; i < p.e; i++ {
			if err := s.PostEvent(tcell.NewEventInterrupt(i)); err != nil {
				res.fail("prologue: PostEvent %d failed: %v", i, err)
			}
		}
		for i := 0; i < p.c; i++ {
			r.tty.inject([]byte{byte('a' + i%26)})
		}
		r.tty.errAt = p.errAt
		verifrt.Quiesce()
		if p.resize {
			r.tty.w, r.tty.h = 5, 3
			r.tty.notify()
		}
		verifrt.Window()
		// ---- explored part ----
		spawn("shutdown", func() {
			if p.refused {
				if err := s.Resume(); err == nil {
					res.fail("Resume() on a running screen returned nil")
				}
			}
			if p.escPending {
				// the user has typed ESC ESC and the parser has seen it; the Suspend comes
				// before the escape timeout has run out
				r.tty.inject([]byte("\x1b\x1b"))
				seen := false // (latched: in some schedules the timeout runs out before this thread goes on)
				verifrt.Block("esc-seen", func() bool {
					if tcell.VerifEscapePending(s) {
						seen = true
					}
					return seen
				})
			}
			if p.op == "fini" {
				s.Fini()
				res.flags["returned"] = true
				res.ints["blocksAtReturn"] = len(r.tty.blocks)
				afterFini(r, res)
			} else {
				for cyc := 0; ; cyc++ {
					if err := s.Suspend(); err != nil {
						res.fail("Suspend returned %v", err)
					}
					res.flags["returned"] = true
					if _, ok := res.ints["blocksAtReturn"]; !ok {
						res.ints["blocksAtReturn"] = len(r.tty.blocks)
					}
					if left := verifrt.Alive(true); len(left) > 0 {
						res.fail("after Suspend returned, library goroutines are still alive: %v", left)
					}
					if cyc >= p.cycles {
						break
					}
					if p.transient {
						r.tty.w--
					}
					if p.grown {
						r.tty.w, r.tty.h = r.tty.w+1, r.tty.h+1 // (nobody is told: the callback is unregistered)
					}
					// Init is not the way back from a Suspend: it is refused (it would replace
					// the channels that pollers of this screen are waiting on)
					if err := s.Init(); err == nil {
						res.fail("Init() on a suspended screen returned nil")
					}
					afterResume(r, res, cyc)
				}
				if p.op == "suspend-fini" {
					s.Fini() // while suspended
					afterFini(r, res)
				}
			}
		})
		if p.polling {
			spawn("consumer", func() {
				for k := 0; k < 4; k++ {
					ev := s.PollEvent()
					res.events = append(res.events, kindOf(ev))
					if ev == nil {
						return
					}
				}
			})
		}
		if p.poster {
			spawn("poster", func() {
				for k := 0; k < 2; k++ {
					_ = s.PostEvent(tcell.NewEventInterrupt(100 + k))
				}
			})
		}
		if p.drawer {
			spawn("drawer", func() {
				s.SetContent(0, 0, 'x', nil, tcell.StyleDefault)
				s.Show()
			})
		}
	}
}

// afterFini: the screen must be inert.
func afterFini(r *rig, res *result) {
	s := r.s
	if left := verifrt.Alive(true); len(left) > 0 {
		res.fail("after Fini returned, library goroutines are still alive: %v", left)
	}
	func() {
		defer func() {
			if x := recover(); x != nil {
				res.fail("a Screen call after Fini panicked: %v", x)
			}
		}()
		s.Fini() // second Fini is a no-op
		s.SetContent(0, 0, 'y', nil, tcell.StyleDefault)
		s.Show()
		s.Sync()
		s.Size()
		s.Clear()
		s.ShowCursor(0, 0)
		s.EnableMouse()
		s.DisableMouse()
		s.EnablePaste()
		s.SetTitle("t")
		s.HasPendingEvent()
		_ = s.PostEvent(tcell.NewEventInterrupt(nil))
		_ = s.Beep()
		s.CanDisplay('x', true)
		s.Colors()
		// the screen is finished: Resume / Suspend must not bring it back to life
		nb := len(r.tty.blocks)
		_ = s.Resume()
		if left := verifrt.Alive(true); len(left) > 0 {
			res.fail("Resume() after Fini() started library goroutines again: %v", left)
		}
		if len(r.tty.blocks) != nb {
			res.fail("Resume() after Fini() used the closed tty again (%d more calls, e.g. %s %q)", len(r.tty.blocks)-nb, r.tty.blocks[nb].by, r.tty.blocks[nb].data)
		}
		_ = s.Suspend()
		// ... and neither must a second Init (refused; the screen stays finished: PollEvent
		// below still returns nil at once, ChannelEvents still closes its channel)
		if err := s.Init(); err == nil {
			res.fail("Init() after Fini() returned nil")
		}
		if left := verifrt.Alive(true); len(left) > 0 {
			res.fail("Init() after Fini() started library goroutines again: %v", left)
		}
	}()
	// PollEvent must not park: it may hand out events that were queued, then nil
	spawn("poll-after-fini", func() {
		for k := 0; k < 16; k++ {
			if ev := s.PollEvent(); ev == nil {
				res.flags["poll-nil"] = true
				return
			}
		}
		res.fail("PollEvent after Fini kept returning events (16) and never nil")
	})
	spawn("channel-events-after-fini", func() {
		ch := make(chan tcell.Event, 32)
		quit := make(chan struct{})
		s.ChannelEvents(ch, quit)
		for range ch {
		}
		res.flags["chan-closed"] = true
	})
}

// afterResume: input and resize delivery work again.
func afterResume(r *rig, res *result, cyc int) {
	s := r.s
	w0 := r.tty.w
	if err := s.Resume(); err != nil {
		res.fail("Resume returned %v", err)
		return
	}
	if c06grown {
		// the size the screen came back to is reported, whatever else happens afterwards
		seen := false
		for k := 0; k < 40 && !seen; k++ {
			ev := s.PollEvent()
			if ev == nil {
				break
			}
			if er, ok := ev.(*tcell.EventResize); ok {
				if w, h := er.Size(); w == r.tty.w && h == r.tty.h {
					seen = true
				}
			}
		}
		if !seen {
			res.fail("the window grew to %dx%d while the screen was suspended (cycle %d); after Resume no resize event with that size is delivered", r.tty.w, r.tty.h, cyc)
		}
	}
	if c06transient {
		// the window is back at the size the screen knew before the Suspend
		r.tty.w = w0 + 1
		r.tty.notify()
		s.Show()
	}
	key := byte('P' + cyc)
	r.tty.inject([]byte{key})
	got := false
	for k := 0; k < 40 && !got; k++ {
		ev := s.PollEvent()
		if er, ok := ev.(*tcell.EventResize); ok && er.When().IsZero() {
			res.fail("after Suspend/Resume cycle %d a resize event was delivered whose When() is the zero time (before its cause)", cyc)
		}
		if ek, ok := ev.(*tcell.EventKey); ok && ek.Rune() == rune(key) {
			got = true
			if ek.Modifiers() != 0 {
				res.fail("after Suspend/Resume cycle %d the key %q typed afterwards was delivered with modifiers %v: input from before the Suspend leaked into it", cyc, key, ek.Modifiers())
			}
		}
		if ev == nil {
			break
		}
	}
	if !got {
		res.fail("after Suspend/Resume cycle %d a key typed afterwards was not delivered", cyc)
	}
	r.tty.w, r.tty.h = r.tty.w+1, r.tty.h+1
	r.tty.notify()
	got = false
	for k := 0; k < 40 && !got; k++ {
		ev := s.PollEvent()
		if er, ok := ev.(*tcell.EventResize); ok {
			if er.When().IsZero() {
				res.fail("after Suspend/Resume cycle %d a resize event was delivered whose When() is the zero time (before its cause)", cyc)
			}
			if w, h := er.Size(); w == r.tty.w && h == r.tty.h {
				got = true
			}
		}
		if ev == nil {
			break
		}
	}
	if !got {
		res.fail("after Suspend/Resume cycle %d a resize notification produced no EventResize", cyc)
	}
}

func c06check(ps string, o verifrt.Outcome, res *result) string {
	var idx int
	fmt.Sscan(ps, &idx)
	p := c06table[idx]
	if o.Panic != "" {
		return "panic: " + o.Panic
	}
	if len(res.fails) > 0 {
		return "inert: " + strings.Join(res.fails, "; ") + "  [" + p.String() + "]"
	}
	if o.Deadlock {
		for _, b := range o.Blocked {
			if strings.HasPrefix(b, "shutdown@") {
				return fmt.Sprintf("hang-%s: %s never returns; every thread is blocked: %v  [%s]", p.op, strings.Title(p.op), o.AllBlocked, p.String())
			}
		}
		for _, b := range o.Blocked {
			if strings.HasPrefix(b, "poll-after-fini@") {
				return fmt.Sprintf("pollevent-blocks-after-fini: PollEvent parks after Fini: %v  [%s]", o.AllBlocked, p.String())
			}
			if strings.HasPrefix(b, "channel-events-after-fini@") {
				return fmt.Sprintf("channelevents-blocks-after-fini: ChannelEvents does not return after Fini: %v  [%s]", o.AllBlocked, p.String())
			}
		}
		// a consumer still waiting for events after a Suspend is not a defect
		only := true
		for _, b := range o.Blocked {
			if !strings.HasPrefix(b, "consumer@") && !strings.HasPrefix(b, "poster@") {
				only = false
			}
		}
		if !only {
			return fmt.Sprintf("deadlock: threads blocked for ever: %v  [%s]", o.AllBlocked, p.String())
		}
	}
	if o.StepLimit {
		return "livelock: step limit reached  [" + p.String() + "]"
	}
	if !res.flags["returned"] {
		return "hang-" + p.op + ": shutdown did not complete  [" + p.String() + "]"
	}
	if m := restoredAtReturn(res); m != "" {
		return m + "  [" + p.String() + "]"
	}
	return ""
}
