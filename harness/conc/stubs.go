package main

func c10Scenarios() []scenario { return nil }
