package main

func c05Scenarios() []scenario { return nil }
func c10Scenarios() []scenario { return nil }
