package main

import (
	"fmt"
	"strings"
	"time"

	"github.com/gdamore/tcell/v2"
	"github.com/gdamore/tcell/v2/verifrt"
)

type c05p struct {
	kind    string // slow | free | pending | chanev | fullposts
	k       int    // key chunks
	perRead int    // keys per chunk
	posters int
	posts   int
	resize  bool
	prefill int
	chunks  []string // explicit chunks (instead of k x perRead letters)
	expect  string   // expected key string for explicit chunks
	modes   bool     // mouse, paste and focus reporting enabled (mixed event kinds in the stream)
	errLast bool     // the read that returns the last chunk reports an error along with the data
}

func (p c05p) String() string {
	return fmt.Sprintf("%s keys=%dx%d posters=%dx%d resize=%v prefill=%d err-with-last-read=%v", p.kind, p.k, p.perRead, p.posters, p.posts, p.resize, p.prefill, p.errLast)
}

var c05table []c05p

func c05Scenarios() []scenario {
	var params []string
	add := func(p c05p) {
		if p.perRead == 0 {
			p.perRead = 1
		}
		c05table = append(c05table, p)
		params = append(params, fmt.Sprint(len(c05table)-1))
	}
	for _, k := range []int{11, 12, 13, 23} {
		add(c05p{kind: "slow", k: k})
	}
	add(c05p{kind: "slow", k: 8, perRead: 3})
	add(c05p{kind: "slow", k: 13, resize: true})
	add(c05p{kind: "slow", k: 23, resize: true})
	for _, k := range []int{1, 2, 3} {
		add(c05p{kind: "free", k: k})
		add(c05p{kind: "free", k: k, posters: 2, posts: 2})
		add(c05p{kind: "free", k: k, posters: 1, posts: 2, resize: true})
	}
	add(c05p{kind: "free", k: 2, perRead: 2, posters: 2, posts: 1, resize: true})
	add(c05p{kind: "pending", k: 2, posters: 1, posts: 2})
	add(c05p{kind: "pending", k: 3})
	for _, k := range []int{0, 2, 3} {
		add(c05p{kind: "chanev", k: k, posters: 1, posts: 2})
		add(c05p{kind: "chanev-fini", k: k, posters: 1, posts: 1})
	}
	// nobody polls while several goroutines post into the last free slot(s): PostEvent never
	// waits - each call returns at once, nil exactly for those that got a slot
	for _, pre := range []int{8, 9, 10} {
		add(c05p{kind: "idleposts", k: 0, posters: 2, posts: 1, prefill: pre})
		add(c05p{kind: "idleposts", k: 0, posters: 3, posts: 1, prefill: pre})
	}
	// the application's channel is full and nobody receives: quit / Fini must still end the
	// forwarding (an event is in flight inside ChannelEvents) and close the channel
	for _, k := range []int{2, 3} {
		add(c05p{kind: "chanev-stalled", k: k})
		add(c05p{kind: "chanev-stalled-fini", k: k})
	}
	// a key sequence split across reads, followed by more input: order of buffered bytes
	add(c05p{kind: "free", chunks: []string{"\x1b[", "A", "b"}, expect: "^b"})
	add(c05p{kind: "slow", chunks: []string{"\x1b", "[", "A", "\x1bO", "B", "c"}, expect: "^vc"})
	// mixed event kinds (key, mouse, paste brackets, focus), all through the same pipeline, with
	// a slow and with a polling consumer: M = mouse, P/p = paste start/end, F/f = focus in/out
	mixed := []string{"ab", "\x1b[<0;2;1M", "c\x1b[200~", "de\x1b[201~", "\x1b[I", "x\x1b[O", "\x1b[<0;3;2m", "gh\x1b[<32;0;-3M", "ijkl"} // the last report: pointer left of / above the window
	add(c05p{kind: "slow", chunks: mixed, expect: "abMcPdepFxfMghMijkl", modes: true})
	add(c05p{kind: "free", chunks: []string{"a\x1b[<0;2;1M", "\x1b[200~b\x1b[201~", "\x1b[I\x1b[O", "c"}, expect: "aMPbpFfc", modes: true})
	// an Esc key press directly before a report, behind other keys of the same read ('?' = a
	// key that is no rune: the Esc): in input order
	add(c05p{kind: "slow", chunks: []string{"ab\x1b\x1b[I", "c"}, expect: "ab?Fc", modes: true})
	// an empty paste (both brackets in one read) is a paste: its two events arrive
	add(c05p{kind: "slow", chunks: []string{"a\x1b[200~\x1b[201~", "b\x1b[201~\x1b[200~\x1b[201~c"}, expect: "aPpbpPpc", modes: true})
	add(c05p{kind: "free", chunks: []string{"ab\x1b\x1b[<0;2;1M", "c"}, expect: "ab?Mc", modes: true})
	for _, pre := range []int{8, 9, 10} {
		add(c05p{kind: "fullposts", k: 1, posters: 2, posts: 2, prefill: pre})
	}
	// two scenario groups: the heavier families (several producers racing) complete bound 1 in
	// the quick tier, the others bound 2
	var light, heavy []string
	for i, p := range c05table {
		if p.posters > 0 || p.kind == "pending" {
			heavy = append(heavy, fmt.Sprint(i))
		} else {
			light = append(light, fmt.Sprint(i))
		}
	}
	return []scenario{{name: "delivery", params: light, bound: 2, caseCost: 1, prog: c05prog, check: c05check},
		{name: "delivery-racing-producers", params: heavy, bound: 1, caseCost: 1, prog: c05prog, check: c05check}}
}

// readsScenarios (C02 / C11 interleaving part): one byte stream reaches the screen through
// Tty.Read in different partitions while the application is not polling (both queues fill, so
// several reads are in flight between inputLoop and mainLoop); the decoded events must be the
// same for every partition: those of the stream delivered in one read.
func readsScenarios(prop string) []scenario {
	var params []string
	add := func(chunks []string, expect string) {
		c05table = append(c05table, c05p{kind: "slow", perRead: 1, chunks: chunks, expect: expect})
		params = append(params, fmt.Sprint(len(c05table)-1))
	}
	if prop == "C02" {
		exp := "abcdefghijkl^mnvop"
		add([]string{"abcdefghijkl\x1b[Amn\x1bOBop"}, exp)
		add([]string{"abcdefghijkl", "\x1b[Amn", "\x1bOBop"}, exp)
		add([]string{"abcdefghijkl", "\x1b[", "A", "mn", "\x1bO", "B", "op"}, exp)
		add([]string{"abcdefghijk", "l\x1b", "[Am", "n\x1bOB", "o", "p"}, exp)
		add([]string{"abcdef", "ghijkl\x1b[A", "m", "n", "\x1bOBo", "p"}, exp)
	} else {
		exp := "abcdefghijkl\u00e9\u4e16z\u00e9\u4e16"
		add([]string{"abcdefghijkl\xc3\xa9\xe4\xb8\x96z\xc3\xa9\xe4\xb8\x96"}, exp)
		add([]string{"abcdefghijkl", "\xc3\xa9", "\xe4\xb8\x96", "z", "\xc3\xa9\xe4\xb8\x96"}, exp)
		add([]string{"abcdefghijkl", "\xc3", "\xa9", "\xe4\xb8", "\x96z", "\xc3\xa9\xe4", "\xb8\x96"}, exp)
		add([]string{"abcdefghijk", "l\xc3", "\xa9\xe4", "\xb8", "\x96", "z\xc3", "\xa9\xe4\xb8\x96"}, exp)
		// the terminal goes away right after its last bytes: the read that returns them also
		// reports the error (io.Reader permits both at once); the text still is text the terminal sent
		c05table = append(c05table, c05p{kind: "slow", perRead: 1, chunks: []string{"abc", "\xc3\xa9z"}, expect: "abc\u00e9z", errLast: true})
		params = append(params, fmt.Sprint(len(c05table)-1))
	}
	return []scenario{{name: "reads", params: params, bound: 2, caseCost: 1, prog: c05prog, check: c05check}}
}

type postRec struct {
	id  int
	err error
	at  time.Time
}

type delivered struct {
	what string
	key  rune
	id   int
	when time.Time
	got  time.Time
	other bool // mouse / paste / focus
}

type c05obs struct {
	posts   [][]postRec
	got     []delivered
	arrival map[rune]time.Time
	firstArrival, lastArrival time.Time
	closed  bool
	chanReturned bool
	continued    bool // after quit the application went on with PollEvent until the queue was empty
	nilEv   bool
}

var obs *c05obs

func c05prog(ps string, res *result) func() {
	var idx int
	fmt.Sscan(ps, &idx)
	p := c05table[idx]
	return func() {
		o := &c05obs{arrival: map[rune]time.Time{}, posts: make([][]postRec, p.posters)}
		obs = o
		r := newRig(4, 2)
		s := r.s
		if p.modes {
			s.EnableMouse()
			s.EnablePaste()
			s.EnableFocus()
		}
		for s.HasPendingEvent() {
			s.PollEvent()
		}
		if p.errLast {
			r.tty.errWith = len(p.chunks)
		}
		for i := 0; i < p.prefill; i++ {
			_ = s.PostEvent(tcell.NewEventInterrupt(-1 - i))
		}
		feed := func() {
			if p.chunks != nil {
				for _, c := range p.chunks {
					o.lastArrival = verifrt.Now()
					if o.firstArrival.IsZero() {
						o.firstArrival = o.lastArrival
					}
					r.tty.inject([]byte(c))
					verifrt.Yield("feeder")
				}
				return
			}
			n := 0
			for c := 0; c < p.k; c++ {
				var b []byte
				for j := 0; j < p.perRead; j++ {
					ch := rune('a' + n%26)
					if n >= 26 {
						ch = rune('A' + (n-26)%26)
					}
					o.arrival[ch] = verifrt.Now()
					b = append(b, byte(ch))
					n++
				}
				r.tty.inject(b)
				verifrt.Yield("feeder")
			}
		}
		record := func(ev tcell.Event) bool {
			now := verifrt.Now()
			switch e := ev.(type) {
			case nil:
				o.nilEv = true
				return false
			case *tcell.EventKey:
				kr := e.Rune()
				switch e.Key() {
				case tcell.KeyUp:
					kr = '^'
				case tcell.KeyDown:
					kr = 'v'
				case tcell.KeyRune:
				default:
					kr = '?'
				}
				if e.Modifiers() != 0 {
					kr = '!'
				}
				o.got = append(o.got, delivered{what: "key", key: kr, when: e.When(), got: now})
				res.events = append(res.events, fmt.Sprintf("k%c", kr))
				verifrt.Note(uint64(kr))
			case *tcell.EventInterrupt:
				id, _ := e.Data().(int)
				if id == 9999 {
					return false // sentinel
				}
				o.got = append(o.got, delivered{what: "post", id: id, when: e.When(), got: now})
				res.events = append(res.events, fmt.Sprintf("p%d", id))
				verifrt.Note(uint64(1000 + id))
			case *tcell.EventMouse, *tcell.EventPaste, *tcell.EventFocus:
				kr := 'M'
				switch x := e.(type) {
				case *tcell.EventPaste:
					kr = 'p'
					if x.Start() {
						kr = 'P'
					}
				case *tcell.EventFocus:
					kr = 'f'
					if x.Focused {
						kr = 'F'
					}
				}
				var when time.Time
				func() {
					defer func() {
						if x := recover(); x != nil {
							res.fail("When() of a delivered %T panicked: %v", ev, x)
						}
					}()
					when = ev.When()
				}()
				o.got = append(o.got, delivered{what: "key", key: kr, when: when, got: now, other: true})
				res.events = append(res.events, fmt.Sprintf("k%c", kr))
				verifrt.Note(uint64(kr))
			case *tcell.EventResize:
				if rw, rh := e.Size(); rh == 7 && rw >= 1000 {
					id := rw - 1000
					o.got = append(o.got, delivered{what: "post", id: id, when: e.When(), got: now})
					res.events = append(res.events, fmt.Sprintf("p%d", id))
					verifrt.Note(uint64(1000 + id))
					break
				}
				res.events = append(res.events, "resize")
			case *tcell.EventError:
				if !p.errLast {
					o.got = append(o.got, delivered{what: fmt.Sprintf("%T", ev)})
				}
			default:
				o.got = append(o.got, delivered{what: fmt.Sprintf("%T", ev)})
			}
			return true
		}
		producersLeft := 1 + p.posters
		if p.resize {
			producersLeft++
		}
		doneProducing := func() { producersLeft-- }

		if p.kind == "slow" {
			// prologue: the application does not poll while all input arrives
			feed()
			verifrt.Quiesce()
			verifrt.Window()
			producersLeft = 0
			if p.resize {
				// the terminal is resized while the application still is not polling
				producersLeft = 1
				spawn("terminal-resize", func() {
					r.tty.w, r.tty.h = 6, 3
					r.tty.notify()
					doneProducing()
				})
			}
		} else {
			verifrt.Window()
			spawn("feeder", func() { feed(); doneProducing() })
			for pi := 0; pi < p.posters; pi++ {
				pi := pi
				spawn(fmt.Sprintf("poster%d", pi), func() {
					for n := 0; n < p.posts; n++ {
						id := pi*100 + n
						at := verifrt.Now()
						// every second post is an event of a kind the screen also produces itself (a
						// resize event whose size is not the screen's): a posted event is delivered as
						// posted, whatever it says
						var pev tcell.Event = tcell.NewEventInterrupt(id)
						if n%2 == 1 {
							pev = tcell.NewEventResize(1000+id, 7)
						}
						err := s.PostEvent(pev)
						o.posts[pi] = append(o.posts[pi], postRec{id, err, at})
						if err != nil {
							verifrt.Note(uint64(7000 + id))
						}
					}
					doneProducing()
				})
			}
			if p.resize {
				spawn("terminal-resize", func() {
					r.tty.w, r.tty.h = 6, 3
					r.tty.notify()
					doneProducing()
				})
			}
		}
		finished := false
		gatePolling := p.kind != "idleposts"
		if p.kind == "idleposts" {
			returned := 0
			for pi := range o.posts {
				_ = pi
			}
			// (the posters were spawned above and count themselves in o.posts)
			spawn("gate", func() {
				verifrt.Quiesce()
				for _, recs := range o.posts {
					returned += len(recs)
				}
				if returned != p.posters*p.posts {
					res.fail("PostEvent is waiting: %d of %d PostEvent calls have not returned although nobody is polling (it must report ErrEventQFull instead of waiting for room)", p.posters*p.posts-returned, p.posters*p.posts)
				}
				// now the application polls
				gatePolling = true
				for {
					if !record(s.PollEvent()) {
						finished = true
						return
					}
				}
			})
		}
		switch p.kind {
		case "chanev-stalled", "chanev-stalled-fini":
			ch := make(chan tcell.Event, 1)
			quit := make(chan struct{})
			spawn("channel-events", func() { s.ChannelEvents(ch, quit); o.chanReturned = true })
			spawn("stopper", func() {
				verifrt.Block("producers-done", func() bool { return producersLeft == 0 })
				verifrt.Quiesce() // the channel holds one event, the next one is in flight
				if p.kind == "chanev-stalled" {
					verifrt.BeforeClose(quit)
					close(quit)
				} else {
					s.Fini()
				}
				verifrt.Quiesce()
				if !o.chanReturned {
					res.fail("ChannelEvents has not returned after %s although every thread is quiescent (its channel is full and nobody receives): the channel is never closed", map[bool]string{true: "close(quit)", false: "Fini()"}[p.kind == "chanev-stalled"])
				}
				// only now does the application look at its channel again
				for {
					verifrt.BeforeRecv(ch)
					ev, ok := <-ch
					if !ok {
						o.closed = true
						break
					}
					record(ev)
				}
				if p.kind == "chanev-stalled" {
					// quit only ends the forwarding: the screen is alive, and what the application
					// has not seen yet is still to be had from PollEvent - all of it, in order
					for s.HasPendingEvent() {
						record(s.PollEvent())
					}
					o.continued = true
				}
				finished = true
			})
		case "chanev", "chanev-fini":
			ch := make(chan tcell.Event, 64)
			quit := make(chan struct{})
			spawn("channel-events", func() { s.ChannelEvents(ch, quit) })
			spawn("reader", func() {
				for {
					verifrt.BeforeRecv(ch)
					ev, ok := <-ch
					if !ok {
						o.closed = true
						finished = true
						return
					}
					record(ev)
				}
			})
			spawn("stopper", func() {
				verifrt.Block("producers-done", func() bool { return producersLeft == 0 })
				if p.kind == "chanev" {
					verifrt.BeforeClose(quit)
					close(quit)
				} else {
					s.Fini()
				}
			})
		case "pending":
			spawn("consumer", func() {
				for !finished {
					if s.HasPendingEvent() {
						verifrt.ExpectEnabled("HasPendingEvent returned true but the next PollEvent had to wait")
						if !record(s.PollEvent()) {
							finished = true
						}
					} else {
						verifrt.Block("pending-or-done", func() bool { return s.HasPendingEvent() })
					}
				}
			})
		case "idleposts":
		default:
			spawn("consumer", func() {
				for {
					if !record(s.PollEvent()) {
						finished = true
						return
					}
				}
			})
		}
		if !strings.HasPrefix(p.kind, "chanev") {
			// when every producer is done and the pipeline has drained, end the consumer
			spawn("closer", func() {
				verifrt.Block("producers-done", func() bool { return producersLeft == 0 && gatePolling })
				verifrt.Quiesce()
				if err := s.PostEvent(tcell.NewEventInterrupt(9999)); err != nil {
					res.fail("the event queue is still full although the consumer is waiting: %v", err)
				}
			})
		}
		_ = finished
	}
}

func c05check(ps string, o verifrt.Outcome, res *result) string {
	var idx int
	fmt.Sscan(ps, &idx)
	p := c05table[idx]
	ob := obs
	tag := "  [" + p.String() + "]"
	if o.Panic != "" {
		if strings.HasPrefix(o.Panic, "expectation failed") {
			return "has-pending: " + o.Panic + tag
		}
		return "panic: " + o.Panic + tag
	}
	if len(res.fails) > 0 {
		if strings.HasPrefix(res.fails[0], "ChannelEvents has not returned") {
			return "channel-not-closed: " + strings.Join(res.fails, "; ") + tag
		}
		if strings.HasPrefix(res.fails[0], "PostEvent is waiting") {
			return "postevent-waits: " + strings.Join(res.fails, "; ") + tag
		}
		if strings.HasPrefix(res.fails[0], "When()") {
			return "when-panic: " + strings.Join(res.fails, "; ") + tag
		}
		return "harness-observed: " + strings.Join(res.fails, "; ") + tag
	}
	if o.StepLimit {
		return "livelock: step limit" + tag
	}
	if o.Deadlock {
		return fmt.Sprintf("stuck: delivery stalled, blocked for ever: %v%s", o.AllBlocked, tag)
	}
	partial := strings.HasPrefix(p.kind, "chanev") && !ob.continued // forwarding may stop early: an in-order prefix/subsequence is required
	// keys: exactly the injected sequence
	want := p.k * p.perRead
	if p.chunks != nil {
		want = len([]rune(p.expect))
	}
	var keys []rune
	for _, d := range ob.got {
		switch d.what {
		case "key":
			keys = append(keys, d.key)
			if p.modes && !ob.firstArrival.IsZero() && (d.when.Before(ob.firstArrival) || d.when.After(d.got)) {
				return fmt.Sprintf("when: event %q: When()=%v is not between the arrival of the input (%v) and its delivery %v%s", d.key, d.when.UnixNano(), ob.firstArrival.UnixNano(), d.got.UnixNano(), tag)
			}
			if a, ok := ob.arrival[d.key]; ok {
				if d.when.Before(a) || d.when.After(d.got) {
					return fmt.Sprintf("when: key %q: When()=%v is not between its arrival %v and its delivery %v%s", d.key, d.when.UnixNano(), a.UnixNano(), d.got.UnixNano(), tag)
				}
			}
		case "post":
		default:
			return fmt.Sprintf("foreign-event: an event of type %s was delivered%s", d.what, tag)
		}
	}
	timerFired := false
	for _, pt := range o.Points {
		if pt.Chosen < len(pt.Options) && strings.HasPrefix(pt.Options[pt.Chosen], "timer") {
			timerFired = true
		}
	}
	if p.chunks != nil && timerFired {
		// the escape timeout expired while a sequence was split across reads: the statement
		// makes no claim about how the parts are then decoded
		return ""
	}
	if ob.continued && len(keys) == want-1 {
		// the one event ChannelEvents had taken off the queue when quit was closed?
		j := 0
		for i := 0; i < want && j < len(keys); i++ {
			exp := rune('a' + i%26)
			if keys[j] == exp {
				j++
			}
		}
		if j == len(keys) {
			return fmt.Sprintf("quit-drops-in-flight: %d keys typed; ChannelEvents forwarded some until quit was closed and PollEvent delivered the rest, but one is missing (%q): the event ChannelEvents was holding when quit fired is neither forwarded nor put back%s", want, string(keys), tag)
		}
	}
	for i, k := range keys {
		exp := rune('a' + i%26)
		if i >= 26 {
			exp = rune('A' + (i-26)%26)
		}
		if p.chunks != nil {
			exp = '#'
			if er := []rune(p.expect); i < len(er) {
				exp = er[i]
			}
		}
		if k != exp {
			return fmt.Sprintf("key-order: delivered keys %q are not the typed sequence in order (position %d)%s", string(keys), i, tag)
		}
	}
	if !partial && len(keys) != want {
		return fmt.Sprintf("key-loss: %d keys typed, %d delivered (%q)%s", want, len(keys), string(keys), tag)
	}
	if len(keys) > want {
		return fmt.Sprintf("key-duplicate: %d keys typed, %d delivered%s", want, len(keys), tag)
	}
	// posts
	for pi, recs := range ob.posts {
		var deliveredIDs []int
		for _, d := range ob.got {
			if d.what == "post" && d.id/100 == pi && d.id >= 0 {
				deliveredIDs = append(deliveredIDs, d.id)
				for _, rc := range recs {
					if rc.id == d.id && (d.when.After(d.got)) {
						return fmt.Sprintf("when: posted event %d has When() after its delivery%s", d.id, tag)
					}
				}
			}
		}
		for i := 1; i < len(deliveredIDs); i++ {
			if deliveredIDs[i] <= deliveredIDs[i-1] {
				return fmt.Sprintf("post-order: poster %d's events were delivered as %v (duplicate or reordered)%s", pi, deliveredIDs, tag)
			}
		}
		for _, rc := range recs {
			n := 0
			for _, id := range deliveredIDs {
				if id == rc.id {
					n++
				}
			}
			if rc.err != nil && n > 0 {
				return fmt.Sprintf("post-full-but-delivered: PostEvent(%d) returned %v but the event was delivered%s", rc.id, rc.err, tag)
			}
			if rc.err == nil && n != 1 && !partial {
				return fmt.Sprintf("post-lost: PostEvent(%d) returned nil but the event was delivered %d times%s", rc.id, n, tag)
			}
		}
	}
	if partial && !ob.closed {
		return "channel-not-closed: ChannelEvents returned without closing its channel (or never returned)" + tag
	}
	return ""
}
