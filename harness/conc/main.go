// Concurrency harness — C05 (event delivery), C06 (shutdown always returns), C10 (data
// races). Engine B: the real tcell goroutines run under the controlled scheduler
// (instrumented build); every schedule up to the preemption bound is executed.
package main

import (
	"flag"
	"fmt"
	"os"
	"strings"

	"github.com/gdamore/tcell/v2/encoding"
	"github.com/gdamore/tcell/v2/verifrt"

	_ "verif/harness/common"
	"verif/hc"
)

var prop = flag.String("prop", "C06", "C05 | C06 | C10")
var w *hc.W

// scenario is one closed program; params select a member of the family.
type scenario struct {
	name   string
	params []string
	prog   func(p string, res *result) func()
	check  func(p string, o verifrt.Outcome, res *result) string
	bound  int
	// caseCost 1 counts a non-first ready select arm as a deviation (used where a long
	// queue can be drained arm by arm, which otherwise multiplies the schedules)
	caseCost int
	maxExecQ int // per-member execution caps (0 = default)
	maxExecT int
}

// result carries observations out of an execution (reset per execution).
type result struct {
	notes  []string
	fails  []string
	events []string
	flags  map[string]bool
	ints   map[string]int
}

func (r *result) reset() {
	*r = result{flags: map[string]bool{}, ints: map[string]int{}}
}

//go:norace
func (r *result) fail(format string, a ...interface{}) {
	r.fails = append(r.fails, fmt.Sprintf(format, a...))
}

func spawn(name string, fn func()) { verifrt.GoNamed(name, false, fn) }

var curProg string

func main() {
	w = hc.Start("")
	encoding.Register() // legacy character sets, incl. the stateful HZ-GB2312 used by C10
	w.R.Property = *prop
	var scs []scenario
	switch *prop {
	case "C06", "C04":
		scs = c06Scenarios()
		if *prop == "C06" {
			// "after Fini() ... ChannelEvents channels are closed, all background goroutines
			// have exited": the forwarding goroutine at shutdown, also with an event in flight
			// and a consumer that has stopped receiving (scenarios shared with C05)
			var params []string
			for _, k := range []int{0, 2, 3} {
				for _, kind := range []string{"chanev-fini", "chanev-stalled-fini"} {
					if kind == "chanev-stalled-fini" && k == 0 {
						continue
					}
					c05table = append(c05table, c05p{kind: kind, k: k, perRead: 1})
					params = append(params, fmt.Sprint(len(c05table)-1))
				}
			}
			scs = append(scs, scenario{name: "channel-events-at-shutdown", params: params, bound: 1, caseCost: 1, prog: c05prog, check: c05check})
		}
	case "C05":
		scs = c05Scenarios()
	case "C10":
		scs = c10Scenarios()
	case "C02", "C11":
		scs = readsScenarios(*prop)
	}
	w.R.Rule = rules[*prop]
	w.R.Assumptions = []string{"scheduling points are the program's synchronisation operations (mutex, channel, select, WaitGroup, Once, timer, blocking tty read); sequentially consistent execution between them", "preemption-bounded: every schedule with at most the stated number of preemptions / early timer firings is executed; select tie-breaks and the order in which blocked threads resume are explored without bound", "tty reads, window size and resize callbacks are owned by the harness; time is virtual"}
	if *hc.Replay != "" {
		var rp struct {
			Scenario, Param string
			Choices         []int
		}
		hc.LoadReplay(&rp)
		for _, sc := range scs {
			if sc.name != rp.Scenario {
				continue
			}
			var res result
			res.reset()
			o := verifrt.Run(rp.Choices, 0, sc.prog(rp.Param, &res))
			for _, p := range o.Points {
				fmt.Printf("  %-7s %d/%d %v\n", p.Kind, p.Chosen, p.N, p.Options)
			}
			msg := sc.check(rp.Param, o, &res)
			fmt.Printf("deadlock=%v blocked=%v fails=%v\n", o.Deadlock, o.AllBlocked, res.fails)
			if msg != "" {
				fmt.Printf("VIOLATION property=%s replay=%s\n  %s\n", *prop, *hc.Replay, msg)
			}
		}
		return
	}
	w.WatchStall(func() (string, string, interface{}) {
		return "schedule", "an execution of " + curProg + " does not come back to the scheduler: a thread is spinning between two synchronisation points (an endless loop in the library)", map[string]interface{}{"Scenario": curProg}
	})
	item := 0
	for _, sc := range scs {
		for _, p := range sc.params {
			item++
			if !hc.Mine(item) {
				continue
			}
			if *hc.Only != "" && *hc.Only != sc.name && *hc.Only != sc.name+"/"+p {
				continue
			}
			if w.Expired() {
				break
			}
			sc, p := sc, p
			var res result
			bound := sc.bound
			if hc.Thorough() {
				bound++
			}
			maxExec := 15000
			if hc.Thorough() {
				maxExec = 200000
			}
			if sc.maxExecQ > 0 && !hc.Thorough() {
				maxExec = sc.maxExecQ
			}
			if sc.maxExecT > 0 && hc.Thorough() {
				maxExec = sc.maxExecT
			}
			if v := os.Getenv("VERIF_MAXEXEC"); v != "" {
				fmt.Sscan(v, &maxExec) // debugging aid
			}
			verifrt.HashStates = *prop != "C10"
			ex := &verifrt.Explorer{Bound: bound, MaxExec: maxExec, Stop: w.Expired, Prune: *prop != "C10", CaseCost: sc.caseCost, LevelOrder: *prop == "C10",
				Prog: func() {
					hc.Tick()
					curProg = sc.name + "/" + p
					res.reset()
					if *prop == "C10" {
						fmt.Fprintf(os.Stderr, "EXEC %s/%s\n", sc.name, p)
					}
					sc.prog(p, &res)()
				},
				Check:     func(o verifrt.Outcome) string { return sc.check(p, o, &res) },
				Signature: func(o verifrt.Outcome) string { return strings.Join(res.events, ",") + fmt.Sprint(o.Deadlock) },
			}
			comp := map[string]map[uint64]bool{}
			if os.Getenv("VERIF_HASHDEBUG") != "" {
				verifrt.DebugComponents = func(parts map[string]uint64) {
					for k, v := range parts {
						if comp[k] == nil {
							comp[k] = map[uint64]bool{}
						}
						comp[k][v] = true
					}
				}
			}
			ex.Explore()
			for k, v := range comp {
				fmt.Fprintf(os.Stderr, "   component %-40s distinct=%d\n", k, len(v))
			}
			w.R.Executions += int64(ex.Execs)
			w.R.Transitions += int64(ex.Execs) // refined below
			w.R.States += int64(len(ex.Distinct))
			w.Count("executions:"+sc.name, int64(ex.Execs))
			w.Count("pruned_revisits:"+sc.name, int64(ex.Pruned))
			if os.Getenv("VERIF_DEBUG") != "" {
				fmt.Fprintf(os.Stderr, "%s/%s execs=%d pruned=%d distinct=%d maxdepth=%d capped=%v\n", sc.name, p, ex.Execs, ex.Pruned, len(ex.Distinct), ex.MaxDepth, ex.Capped)
				fmt.Fprintf(os.Stderr, "   visited=%d\n", ex.Visited())
			}
			for k := range ex.Distinct {
				w.Distinct(hc.Hash(sc.name, p, k))
			}
			if ex.Capped && *prop == "C10" {
				w.Count("members_capped", 1)
			} else if ex.Capped {
				w.NotExhaustive(fmt.Sprintf("%s/%s: execution cap reached after %d schedules (preemption bound %d not completed)", sc.name, p, ex.Execs, bound))
			}
			if len(w.R.Samples) < 4 && ex.Execs > 1 {
				w.Sample(map[string]interface{}{"scenario": sc.name, "param": p, "preemption_bound": bound, "schedules": ex.Execs, "max_decision_points": ex.MaxDepth, "distinct_outcomes": len(ex.Distinct)})
			}
			for _, f := range ex.Failures {
				first := strings.SplitN(f.Msg, "\n", 2)[0]
				sig := first
				if i := strings.Index(sig, ":"); i > 0 {
					sig = sig[:i]
				}
				tr := f.Trace
				if len(tr) > 40 {
					tr = append([]string{"..."}, tr[len(tr)-40:]...)
				}
				w.Violation(sc.name+":"+sig, fmt.Sprintf("scenario %s (%s), preemption bound %d: %s\n schedule (decision points with more than one option): %s", sc.name, p, bound, f.Msg, strings.Join(tr, " > ")),
					map[string]interface{}{"Scenario": sc.name, "Param": p, "Choices": f.Choices})
			}
		}
	}
	if *prop == "C10" && w.R.Counters["members_capped"] > 0 {
		w.NotExhaustive(fmt.Sprintf("%d programs reached their per-program schedule cap before completing the deviation bound (race detection is happens-before based, so one schedule per code path suffices; the bound only serves to reach paths)", w.R.Counters["members_capped"]))
	}
	w.Finish()
}

var rules = map[string]string{
	"C06": "stateless DFS over schedules of the real inputLoop/mainLoop/shutdown code under a controlled scheduler, preemption bound 2 (thorough 3): shutdown op in {Fini, Suspend} x event-queue level x chunks offered x consumer polling or stopped x resize pending x tty read error at the i-th read; Suspend/Resume cycles with input and resize after each Resume; Fini of a suspended screen; concurrent poster and drawer. A deterministic prologue fills the queues to the stated levels (real capacities 10/10), branching starts when the shutdown caller is spawned. Oracle: the shutdown caller finishes in every execution (no deadlock with it parked); after Fini PollEvent never parks, ChannelEvents channels are closed, inputLoop and mainLoop have exited, a second Fini returns, later Screen calls do not panic; after Suspend+Resume input and resize are delivered again. distinct_nontrivial = distinct (scenario, parameter, observed outcome) classes",
	"C04": "interleaving part of C04: the shutdown family of C06 (Fini or Suspend x queue levels x pending resize x read errors x concurrent poster/drawer) explored under the controlled scheduler; at the moment the shutdown call returns everything written so far is replayed into the reference terminal, which must be restored (main screen, cursor visible, SGR default, keypad and DEC private modes off, title stack balanced) and nothing may have been written after the tty was stopped",
	"C02": "interleaving part of C02: one key/escape-sequence stream delivered through Tty.Read in 5 partitions (sequences split inside and between reads) while the application is not polling, so that several reads are in flight between inputLoop, the key channel and mainLoop; stateless DFS over schedules, preemption bound 2 (thorough 3); the delivered key events must be those of the stream delivered in one read, in order (executions in which the virtual escape timer fired inside a split sequence are not judged)",
	"C11": "interleaving part of C11: one UTF-8 text stream (1-, 2- and 3-byte characters) delivered through Tty.Read in 4 partitions (characters split across reads) while the application is not polling; stateless DFS over schedules, preemption bound 2 (thorough 3); the delivered runes must be the typed text in order",
	"C05": "stateless DFS over schedules (preemption bound 2, thorough 3) of a feeder thread injecting sequence-numbered key chunks, a resize notifier, two posters (PostEvent of numbered interrupts, recording the return value), and a consumer (PollEvent, or ChannelEvents with quit), with the real inputLoop/mainLoop; slow-consumer variants start the consumer only after both queues are full (deterministic prologue); streams mixing keys, mouse reports, paste brackets and focus reports; ChannelEvents with a full application channel at quit/Fini. Oracle at quiescence: input-derived key events are exactly the injected sequence in order; each poster's delivered events are in posting order; PostEvent returned nil iff its event was delivered exactly once; HasPendingEvent true implies the next PollEvent does not park; ChannelEvents forwards an in-order subsequence and closes its channel; When() lies between the cause's arrival and delivery (virtual clock). distinct_nontrivial = distinct (scenario, parameter, delivered event order) outcomes",
	"C10": "every unordered pair of Screen methods from the API alphabet run on two threads against a live terminfo screen (with input traffic and a resize notification; UTF-8 locale, and - for pairs with a drawing or charset-dependent call - a locale whose encoder is stateful, HZ-GB2312) and, for SimulationScreen, its own alphabet; schedules with at most 1 preemption (thorough 2) are executed breadth-first (canonical schedule, then every single departure from it, then further ones; per-program cap) - each pair both with input traffic and without (quiet: only the two callers run, every preemption point of either call is reached) - in a -race build whose scheduler hand-offs are hidden from ThreadSanitizer (runtime.RaceDisable), so each schedule is also checked by the happens-before race detector; race reports are keyed by the pair of tcell functions at the two access sites. Also checked: no runtime fault or panic, and every Show() reaches the tty as one contiguous, well-formed block. distinct_nontrivial = distinct (pair, outcome) classes",
}
