package main

import (
	"errors"
	"fmt"
	"os"

	"github.com/gdamore/tcell/v2"
	"github.com/gdamore/tcell/v2/terminfo"
	"github.com/gdamore/tcell/v2/verifrt"

)

// stty is the fake Tty for controlled executions. It takes no locks (exactly one managed
// goroutine runs at a time) and its own memory accesses are hidden from the race detector,
// so it adds no happens-before edges of its own to the program under test.
type stty struct {
	w, h    int
	in      [][]byte
	drained bool
	closed  bool
	started bool
	cb      func()
	reads   int
	errAt   int // the errAt-th Read (1-based) fails; 0 = never
	errWith int // the errWith-th Read that returns data returns an error with it (io.Reader allows both); 0 = never
	dataN   int
	blocks  []wblock
	log     []string
	inWrite string
}

type wblock struct {
	by   string
	data []byte
}

//go:norace
func (t *stty) Start() error {
	verifrt.Touch("tty.Read")
	t.log = append(t.log, "Start")
	t.started, t.drained = true, false
	return nil
}

//go:norace
func (t *stty) Stop() error {
	verifrt.Touch("tty.Read")
	t.log = append(t.log, "Stop")
	t.started = false
	return nil
}

//go:norace
func (t *stty) Drain() error {
	verifrt.Touch("tty.Read")
	t.log = append(t.log, "Drain")
	t.drained = true
	return nil
}

//go:norace
func (t *stty) Close() error {
	verifrt.Touch("tty.Read")
	t.log = append(t.log, "Close")
	t.closed = true
	return nil
}

//go:norace
func (t *stty) NotifyResize(cb func()) { verifrt.Touch("tty.cb"); t.cb = cb }

//go:norace
func (t *stty) WindowSize() (tcell.WindowSize, error) {
	verifrt.Touch("tty.cb")
	return tcell.WindowSize{Width: t.w, Height: t.h}, nil
}

//go:norace
func (t *stty) ready() bool {
	return len(t.in) > 0 || t.drained || t.closed || (t.errAt > 0 && t.reads+1 >= t.errAt)
}

// Read is deliberately NOT norace where it fills the caller's buffer: the tty writes the bytes
// into the slice it is given, and a caller that still lets another thread read that slice (a
// read buffer reused before its previous contents were consumed) races with this write. Only
// the bookkeeping (next) is hidden from the detector.
func (t *stty) Read(p []byte) (int, error) {
	data, err := t.next()
	n := copy(p, data)
	return n, err
}

//go:norace
func (t *stty) next() ([]byte, error) {
	verifrt.Block("tty.Read", t.ready)
	t.reads++
	if t.errAt > 0 && t.reads >= t.errAt {
		t.errAt = 0
		return nil, errors.New("injected tty read error")
	}
	if len(t.in) > 0 {
		d := t.in[0]
		t.in = t.in[1:]
		t.dataN++
		if t.errWith > 0 && t.dataN == t.errWith {
			return d, errors.New("injected tty read error (with data)")
		}
		return d, nil
	}
	if t.closed {
		return nil, errors.New("tty closed")
	}
	return nil, nil
}

// Write is deliberately NOT norace: the terminal reads the bytes it is given, and a caller that
// lets another thread modify them meanwhile (a shared buffer written outside the lock) races
// with this read. Only the bookkeeping below is hidden from the detector.
func (t *stty) Write(p []byte) (int, error) {
	cp := append([]byte(nil), p...)
	t.record(cp)
	return len(p), nil
}

//go:norace
func (t *stty) record(cp []byte) {
	who := verifrt.CurrentName()
	t.blocks = append(t.blocks, wblock{who, cp})
}

//go:norace
func (t *stty) inject(b []byte) {
	verifrt.Touch("tty.Read")
	t.in = append(t.in, append([]byte(nil), b...))
}

//go:norace
func (t *stty) notify() {
	verifrt.Touch("tty.cb")
	if t.cb != nil {
		t.cb()
	}
}

type rig struct {
	tty *stty
	s   tcell.Screen
}

// rigLocale selects the character set of the next rig (C10 also runs with a stateful legacy
// encoder: HZ-GB2312 keeps a shift state that every Reset/Transform writes).
var rigLocale = "en_US.UTF-8"

func newRig(w, h int) *rig {
	os.Setenv("LC_ALL", rigLocale)
	os.Setenv("TCELL_TRUECOLOR", "disable")
	os.Unsetenv("TCELL_ALTSCREEN")
	ti := *terminfo.VerifGet("xterm-256color")
	r := &rig{tty: &stty{w: w, h: h}}
	s, err := tcell.NewTerminfoScreenFromTtyTerminfo(r.tty, &ti)
	if err != nil {
		panic(err)
	}
	if err := s.Init(); err != nil {
		panic(err)
	}
	r.s = s
	// shared data for the state key: the screen's private state and the tty's input side
	// (output is write-only and cannot influence the program)
	verifrt.DataHash = func() uint64 { return tcell.VerifScreenStateHash(s) }
	verifrt.EnvHash = func() uint64 {
		t := r.tty
		b := func(x bool) uint64 {
			if x {
				return 1
			}
			return 0
		}
		return uint64(len(t.in))<<40 | uint64(t.w)<<32 | uint64(t.h)<<24 | uint64(t.errAt)<<8 | uint64(t.errWith)<<12 | uint64(t.dataN)<<16 | b(t.drained)<<0 | b(t.closed)<<1 | b(t.started)<<2 | b(t.cb != nil)<<3
	}
	return r
}

func kindOf(ev tcell.Event) string {
	switch e := ev.(type) {
	case nil:
		return "nil"
	case *tcell.EventKey:
		return fmt.Sprintf("key(%c)", e.Rune())
	case *tcell.EventInterrupt:
		return fmt.Sprintf("int(%v)", e.Data())
	case *tcell.EventResize:
		w, h := e.Size()
		return fmt.Sprintf("resize(%dx%d)", w, h)
	case *tcell.EventError:
		return "error"
	}
	return fmt.Sprintf("%T", ev)
}
