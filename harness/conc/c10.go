package main

import (
	"fmt"
	"strings"

	"github.com/gdamore/tcell/v2"
	"github.com/gdamore/tcell/v2/verifrt"

	"verif/hc"
	"verif/ref/vt"
)

type apiOp struct {
	name string
	do   func(s tcell.Screen)
	sim  bool // also meaningful on SimulationScreen
	simOnly bool // SimulationScreen's own methods
}

func apiOps() []apiOp {
	st := tcell.StyleDefault.Foreground(tcell.ColorRed).Bold(true)
	return []apiOp{
		{"Show", func(s tcell.Screen) { s.Show() }, true, false},
		{"Sync", func(s tcell.Screen) { s.Sync() }, true, false},
		{"SetContent", func(s tcell.Screen) { s.SetContent(1, 0, 'x', []rune{0x0301}, st) }, true, false},
		{"GetContent", func(s tcell.Screen) {
			// the caller looks at the combining runes it was given
			_, comb, _, _ := s.GetContent(1, 0)
			n := rune(0)
			for _, r := range comb {
				n += r
			}
		}, true, false},
		{"Fill", func(s tcell.Screen) { s.Fill('f', st) }, true, false},
		{"Clear", func(s tcell.Screen) { s.Clear() }, true, false},
		{"SetStyle", func(s tcell.Screen) { s.SetStyle(st) }, true, false},
		{"ShowCursor", func(s tcell.Screen) { s.ShowCursor(1, 1) }, true, false},
		{"SetCursorStyle", func(s tcell.Screen) { s.SetCursorStyle(tcell.CursorStyleSteadyBar, tcell.ColorRed) }, false, false},
		{"Size", func(s tcell.Screen) { s.Size() }, true, false},
		{"SetSize", func(s tcell.Screen) { s.SetSize(5, 3) }, true, false},
		{"EnableMouse", func(s tcell.Screen) { s.EnableMouse() }, true, false},
		{"DisableMouse", func(s tcell.Screen) { s.DisableMouse() }, true, false},
		{"EnablePaste", func(s tcell.Screen) { s.EnablePaste() }, true, false},
		{"EnableFocus", func(s tcell.Screen) { s.EnableFocus() }, false, false},
		{"Beep", func(s tcell.Screen) { _ = s.Beep() }, false, false},
		{"CanDisplay", func(s tcell.Screen) { s.CanDisplay('é', true) }, true, false},
		{"HasKey", func(s tcell.Screen) { s.HasKey(tcell.KeyF5) }, false, false},
		{"HasMouse", func(s tcell.Screen) { s.HasMouse() }, false, false},
		{"Colors", func(s tcell.Screen) { s.Colors() }, false, false},
		{"CharacterSet", func(s tcell.Screen) { s.CharacterSet() }, false, false},
		{"RegisterRuneFallback", func(s tcell.Screen) { s.RegisterRuneFallback(0x2603, "*") }, true, false},
		{"UnregisterRuneFallback", func(s tcell.Screen) { s.UnregisterRuneFallback(tcell.RuneBullet) }, true, false},
		{"SetTitle", func(s tcell.Screen) { s.SetTitle("t") }, true, false},
		{"SetClipboard", func(s tcell.Screen) {
			b := []byte("c")
			s.SetClipboard(b)
			b[0] = 'd' // the buffer is the caller's again once the call has returned
		}, true, false},
		{"GetClipboard", func(s tcell.Screen) { s.GetClipboard() }, false, false},
		{"LockRegion", func(s tcell.Screen) { s.LockRegion(0, 0, 1, 1, true) }, true, false},
		{"PostEvent", func(s tcell.Screen) { _ = s.PostEvent(tcell.NewEventInterrupt(1)) }, true, false},
		{"PollEvent", func(s tcell.Screen) { _ = s.PostEvent(tcell.NewEventInterrupt(2)); s.PollEvent() }, true, false},
		{"HasPendingEvent", func(s tcell.Screen) { s.HasPendingEvent() }, true, false},
		{"Suspend", func(s tcell.Screen) { _ = s.Suspend() }, false, false},
		{"SuspendResume", func(s tcell.Screen) { _ = s.Suspend(); _ = s.Resume() }, false, false},
		{"Fini", func(s tcell.Screen) { s.Fini() }, true, false},
		// the test double's own API
		{"GetContents", func(s tcell.Screen) {
			cells, _, _ := s.(tcell.SimulationScreen).GetContents()
			n := 0
			for i := range cells { // the caller looks at what it was given
				n += len(cells[i].Bytes) + len(cells[i].Runes)
				_ = cells[i].Style
			}
		}, true, true},
		{"GetCursor", func(s tcell.Screen) { s.(tcell.SimulationScreen).GetCursor() }, true, true},
		{"GetClipboardData", func(s tcell.Screen) {
			if d := s.(tcell.SimulationScreen).GetClipboardData(); len(d) > 0 {
				_ = d[0] // the caller looks at what it was given
			}
		}, true, true},
		{"InjectKey", func(s tcell.Screen) { s.(tcell.SimulationScreen).InjectKey(tcell.KeyRune, 'k', tcell.ModNone) }, true, true},
		{"InjectKeyBytes", func(s tcell.Screen) { s.(tcell.SimulationScreen).InjectKeyBytes([]byte{0xc4, 0xe3, 'a'}) }, true, true},
		{"InjectMouse", func(s tcell.Screen) { s.(tcell.SimulationScreen).InjectMouse(1, 1, tcell.Button1, tcell.ModNone) }, true, true},
	}
}

type c10p struct {
	a, b, c int // op indices (c = -1 for pairs)
	traffic bool
	sim     bool
	legacy  bool // stateful legacy character set (HZ-GB2312)
}

var c10table []c10p

func c10Scenarios() []scenario {
	ops := apiOps()
	var pairs, quietPairs, simPairs, triples []string
	add := func(list *[]string, p c10p) {
		c10table = append(c10table, p)
		*list = append(*list, fmt.Sprint(len(c10table)-1))
	}
	for a := range ops {
		for b := a; b < len(ops); b++ {
			if !ops[a].simOnly && !ops[b].simOnly {
				add(&pairs, c10p{a: a, b: b, c: -1, traffic: true})
				add(&quietPairs, c10p{a: a, b: b, c: -1})
			}
			if ops[a].sim && ops[b].sim {
				add(&simPairs, c10p{a: a, b: b, c: -1, sim: true})
			}
		}
	}
	// the same calls where the locale selects a stateful encoder (shared mutable object behind
	// encodeRune / CanDisplay): every pair with at least one drawing or charset-dependent call
	var legacyPairs []string
	charsetOps := map[string]bool{"InjectKeyBytes": true, "GetContents": true, "Show": true, "Sync": true, "CanDisplay": true, "CharacterSet": true, "RegisterRuneFallback": true, "UnregisterRuneFallback": true, "SetSize": true, "Fill": true}
	for a := range ops {
		for b := a; b < len(ops); b++ {
			if (charsetOps[ops[a].name] || charsetOps[ops[b].name]) && (ops[a].simOnly || ops[b].simOnly) {
				if ops[a].sim && ops[b].sim {
					add(&legacyPairs, c10p{a: a, b: b, c: -1, sim: true, legacy: true})
				}
				continue
			}
			if charsetOps[ops[a].name] || charsetOps[ops[b].name] {
				add(&legacyPairs, c10p{a: a, b: b, c: -1, traffic: true, legacy: true})
				if ops[a].sim && ops[b].sim {
					// the simulation screen in a single-byte charset: unencodable runes go
					// through its fallback table
					add(&legacyPairs, c10p{a: a, b: b, c: -1, sim: true, legacy: true})
				}
			}
		}
	}
	if hc.Thorough() {
		mut := []int{0, 1, 2, 4, 6, 7, 10, 11, 21, 23, 26, 32}
		for i, a := range mut {
			for j := i; j < len(mut); j++ {
				for k := j; k < len(mut); k++ {
					add(&triples, c10p{a: a, b: mut[j], c: mut[k], traffic: true})
				}
			}
		}
	}
	// "pairs-quiet": no input traffic, so the only runnable threads are the two callers and the
	// space of one-preemption schedules is small enough to be completed for every pair (every
	// preemption point of either call is tried); "pairs": the same calls racing with the
	// library's own input and resize goroutines, capped per program.
	out := []scenario{{name: "pairs-quiet", params: quietPairs, bound: 1, maxExecQ: 100, maxExecT: 4000, prog: c10prog, check: c10check},
		{name: "pairs", params: pairs, bound: 1, maxExecQ: 12, maxExecT: 600, prog: c10prog, check: c10check},
		{name: "sim-pairs", params: simPairs, bound: 1, maxExecQ: 30, maxExecT: 300, prog: c10prog, check: c10check},
		{name: "pairs-stateful-charset", params: legacyPairs, bound: 1, maxExecQ: 12, maxExecT: 200, prog: c10prog, check: c10check}}
	if len(triples) > 0 {
		out = append(out, scenario{name: "triples", params: triples, bound: 0, maxExecT: 20, prog: c10prog, check: c10check})
	}
	return out
}

type showRec struct {
	who    string
	before int
	after  int
}

var c10rig *rig
var c10shows []showRec

func c10prog(ps string, res *result) func() {
	var idx int
	fmt.Sscan(ps, &idx)
	p := c10table[idx]
	ops := apiOps()
	return func() {
		c10shows = nil
		c10rig = nil
		var s tcell.Screen
		var r *rig
		// the stateful codec (7-bit HZ) under the name the tree registers it by
		hz := "GB2312"
		if tcell.GetEncoding("HZ-GB-2312") != nil {
			hz = "HZ-GB-2312"
		}
		if p.sim {
			cs := "UTF-8"
			if p.legacy {
				cs = hz // HZ: single-byte, unencodable runes go to the fallback table, and its codec is stateful
			}
			ss := tcell.NewSimulationScreen(cs)
			if err := ss.Init(); err != nil {
				panic(err)
			}
			ss.SetSize(4, 2)
			s = ss
		} else {
			rigLocale = "en_US.UTF-8"
			if p.legacy {
				rigLocale = "zh_CN." + hz
			}
			r = newRig(4, 2)
			rigLocale = "en_US.UTF-8"
			s = r.s
			c10rig = r
			if p.legacy {
				if cs := s.CharacterSet(); cs != hz {
					panic("stateful charset rig selected " + cs)
				}
				s.SetContent(2, 0, 0x4e16, nil, tcell.StyleDefault) // two-byte character: the encoder leaves ASCII mode
			}
		}
		// content with a non-palette colour that has not been drawn yet: the first Show of the
		// program has to extend the colour cache
		s.SetContent(0, 0, 'a', nil, tcell.StyleDefault.Foreground(tcell.NewRGBColor(1, 2, 3)))
		s.SetContent(1, 0, 'e', []rune{0x0308}, tcell.StyleDefault) // the cell GetContent / SetContent work on has combining runes
		run := func(name string, i int) {
			spawn(name, func() {
				defer func() {
					if x := recover(); x != nil {
						res.fail("%s panicked: %v", ops[i].name, x)
					}
				}()
				isShow := ops[i].name == "Show" || ops[i].name == "Sync"
				n0 := 0
				if r != nil {
					n0 = len(r.tty.blocks)
				}
				ops[i].do(s)
				if isShow && r != nil {
					c10shows = append(c10shows, showRec{name, n0, len(r.tty.blocks)})
				}
			})
		}
		if p.traffic && r != nil {
			// the window has already changed size (not yet noticed) and a key and a mouse
			// report are waiting on the tty when the two calls start
			r.tty.w, r.tty.h = 5, 2
			r.tty.inject([]byte("k")) // (two reads' worth: the second one can complete before the first is consumed)
			r.tty.inject([]byte("\x1b[<0;9;9M"))
		}
		run("A:"+ops[p.a].name, p.a)
		run("B:"+ops[p.b].name, p.b)
		if p.c >= 0 {
			run("C:"+ops[p.c].name, p.c)
		}
		if p.traffic && r != nil {
			spawn("terminal", func() {
				r.tty.inject([]byte("\x1b[<32;2;1M"))
				r.tty.w, r.tty.h = 6, 2
				r.tty.notify()
			})
		}
	}
}

func c10check(ps string, o verifrt.Outcome, res *result) string {
	var idx int
	fmt.Sscan(ps, &idx)
	p := c10table[idx]
	ops := apiOps()
	tag := fmt.Sprintf("  [%s || %s, sim=%v, stateful-charset=%v]", ops[p.a].name, ops[p.b].name, p.sim, p.legacy)
	if o.Panic != "" {
		return "panic: " + o.Panic + tag
	}
	if len(res.fails) > 0 {
		return "panic: " + strings.Join(res.fails, "; ") + tag
	}
	if o.StepLimit {
		return "livelock: step limit" + tag
	}
	if o.Deadlock {
		// PollEvent / Suspend combinations may legitimately leave a thread waiting; a thread
		// blocked on a lock, though, is a deadlock of the library
		for _, b := range o.Blocked {
			if strings.Contains(b, "@lock") {
				return fmt.Sprintf("deadlock: %v%s", o.AllBlocked, tag)
			}
		}
	}
	if r := c10rig; r != nil {
		// each Show()/Sync() reaches the tty as exactly one Write by the calling thread, and
		// every block written is a well-formed piece of output
		for _, sh := range c10shows {
			n := 0
			for _, b := range r.tty.blocks[sh.before:sh.after] {
				if b.by == sh.who {
					n++
				}
			}
			if n > 1 {
				return fmt.Sprintf("show-split: one %s call wrote %d separate blocks to the tty%s", sh.who, n, tag)
			}
		}
		for _, b := range r.tty.blocks {
			t := vt.New(8, 4, nil, vt.Quirks{})
			t.Write(b.data)
			if len(t.Errors) > 0 || t.InString() {
				return fmt.Sprintf("malformed-block: a block written by %s is not well formed on its own (%q): %v%s", b.by, b.data, t.Errors, tag)
			}
		}
	}
	return ""
}
