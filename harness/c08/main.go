// C08 — CellBuffer stores what was set and its dirty flag never misses a change.
// Engine A: explicit-state search over histories of the public CellBuffer API against an
// executable reference model; after every operation all observations (GetContent, Dirty,
// Size over in- and out-of-range coordinates) are compared.
package main

import (
	"fmt"
	"reflect"
	"strings"

	"github.com/gdamore/tcell/v2"
	runewidth "github.com/mattn/go-runewidth"

	"verif/hc"
	"verif/ref/shadow"
	"verif/seq"
)

// ---------- reference model ----------

type mcell struct {
	r       rune
	comb    []rune
	fg, bg  tcell.Color
	attrs   tcell.AttrMask
	rest    tcell.Style // style with everything but fg/bg (compared via full style)
	style   tcell.Style
	lock    bool
	snapOK  bool
	snapR   rune
	snapC   []rune
	snapS   tcell.Style
	forced  bool // Invalidate / Resize / unlock / SetDirty(true) / covered by a changed wide rune
	touched bool // stored to since last clean (even with identical content)
}

type model struct {
	w, h  int
	cells []mcell
}

func rw(r rune) int { return runewidth.RuneWidth(r) }

func (m *model) in(x, y int) bool { return x >= 0 && y >= 0 && x < m.w && y < m.h }

func mergeStyle(old, st tcell.Style) tcell.Style {
	fg, bg, _ := st.Decompose()
	ofg, obg, _ := old.Decompose()
	if fg == tcell.ColorNone {
		st = st.Foreground(ofg)
	}
	if bg == tcell.ColorNone {
		st = st.Background(obg)
	}
	return st
}

func eqRunes(a, b []rune) bool {
	if len(a) != len(b) {
		return false
	}
	for i := range a {
		if a[i] != b[i] {
			return false
		}
	}
	return true
}

// obsWidth / obsRune: what GetContent must report for stored rune r.
func obs(r rune) (rune, int) {
	w := rw(r)
	if w == 0 || r < ' ' || shadow.Invisible(r) {
		return ' ', 1 // zero-width by the width table or by the Unicode category (Cf, Mn, Me, noncharacters)
	}
	return r, w
}

func (m *model) store(x, y int, r rune, comb []rune, st tcell.Style, viaFill bool) {
	c := &m.cells[y*m.w+x]
	// "changing a wide rune also dirties every column it covered": the further columns of
	// the old wide rune must read dirty; the cell itself is decided by the comparison with
	// its clean snapshot (a->b->a leaves either answer acceptable).
	changed := r != c.r || !eqRunes(comb, c.comb)
	if changed {
		_, ow := obs(c.r)
		for i := 1; i < ow; i++ {
			if m.in(x+i, y) {
				m.cells[y*m.w+x+i].forced = true
			}
		}
	}
	// storing exactly what the cell already holds is not a change ("false right after
	// SetDirty(x,y,false) with no further change"): only a store that alters the rune,
	// the combining runes or the style leaves the a->b->a latitude open
	ns := mergeStyle(c.style, st)
	if changed || ns != c.style {
		c.touched = true
	}
	c.r = r
	c.comb = append([]rune{}, comb...)
	c.style = ns
}

func (m *model) setDirty(x, y int, d bool) {
	if !m.in(x, y) {
		return
	}
	c := &m.cells[y*m.w+x]
	if d {
		c.forced = true
		return
	}
	c.forced = false
	c.touched = false
	c.snapOK = true
	c.snapR, c.snapC, c.snapS = c.r, append([]rune{}, c.comb...), c.style
}

func (m *model) resize(w, h int) {
	if w == m.w && h == m.h {
		return
	}
	nc := make([]mcell, w*h)
	for i := range nc {
		nc[i].forced = true
	}
	for y := 0; y < h && y < m.h; y++ {
		for x := 0; x < w && x < m.w; x++ {
			o := m.cells[y*m.w+x]
			n := &nc[y*w+x]
			n.r, n.comb, n.style = o.r, o.comb, o.style
		}
	}
	m.cells, m.w, m.h = nc, w, h
}

// dirtyExpect: 1 must be true, 0 must be false, -1 either.
func (c *mcell) dirtyExpect() int {
	if c.lock {
		return 0
	}
	if c.forced || !c.snapOK {
		return 1
	}
	// "differ" is decided on what GetContent reports (a never-set cell, NUL and other
	// blanked runes all read back as ' ')
	or, _ := obs(c.r)
	sr, _ := obs(c.snapR)
	if or != sr || !eqRunes(c.comb, c.snapC) || c.style != c.snapS {
		return 1
	}
	if !c.touched {
		return 0
	}
	return -1
}

// ---------- operations ----------

type op struct {
	kind  string
	x, y  int
	r     rune
	comb  int // index into comb table; -1 = shared mutable slice
	style int
	w, h  int
	flag  bool
}

func (o op) String() string {
	switch o.kind {
	case "set":
		return fmt.Sprintf("SetContent(%d,%d,%#x,comb%d,style%d)", o.x, o.y, o.r, o.comb, o.style)
	case "fill":
		return fmt.Sprintf("Fill(%#x,style%d)", o.r, o.style)
	case "dirty":
		return fmt.Sprintf("SetDirty(%d,%d,%v)", o.x, o.y, o.flag)
	case "cleanall":
		return "SetDirty(all,false)"
	case "inval":
		return "Invalidate()"
	case "lock":
		return fmt.Sprintf("LockCell(%d,%d)", o.x, o.y)
	case "unlock":
		return fmt.Sprintf("UnlockCell(%d,%d)", o.x, o.y)
	case "resize":
		return fmt.Sprintf("Resize(%d,%d)", o.w, o.h)
	case "mutate":
		return "caller mutates the slice it passed earlier"
	}
	return o.kind
}

var combs = [][]rune{nil, {0x0301}, {0x0301, 0x0302}, {0x0302}}

var styles = []tcell.Style{
	tcell.StyleDefault,
	tcell.StyleDefault.Foreground(tcell.ColorRed),
	tcell.StyleDefault.Foreground(tcell.ColorNone).Background(tcell.ColorBlue),
	tcell.StyleDefault.Background(tcell.ColorReset).Bold(true),
	tcell.StyleDefault.Foreground(tcell.ColorNone).Background(tcell.ColorNone).Underline(true),
	// 5..12: one base style and seven variants that each differ from it in exactly one field
	fieldBase,
	fieldBase.Foreground(tcell.ColorGreen),
	fieldBase.Background(tcell.ColorGreen),
	fieldBase.Italic(true),
	fieldBase.Underline(tcell.UnderlineStyleDouble, tcell.ColorRed),
	fieldBase.Underline(tcell.UnderlineStyleCurly, tcell.ColorGreen),
	fieldBase.Url("http://v"),
	fieldBase.UrlId("j"),
}

var fieldBase = tcell.StyleDefault.Foreground(tcell.ColorRed).Background(tcell.ColorBlue).Bold(true).Underline(tcell.UnderlineStyleCurly, tcell.ColorRed).Url("http://u").UrlId("i")

type sys struct {
	cb     tcell.CellBuffer
	m      model
	shared []rune // slice handed to SetContent and mutated later by the caller
	ops    []op
}

func newSys(w, h int, ops []op) *sys {
	s := &sys{ops: ops, shared: []rune{0x0301}}
	s.cb.Resize(w, h)
	s.m.w, s.m.h = 0, 0
	s.m.resize(w, h)
	if w == 0 && h == 0 {
		s.m.cells = nil
	}
	return s
}

func (s *sys) Close() {}

func (s *sys) Key() string {
	var sb strings.Builder
	sb.WriteString(tcell.VerifCellDump(&s.cb))
	fmt.Fprintf(&sb, "#%v#", s.shared)
	for i := range s.m.cells {
		c := &s.m.cells[i]
		fmt.Fprintf(&sb, "%d,%v,%v,%v,%v,%d,%v,%v,%v,%v;", c.r, c.comb, c.style, c.lock, c.snapOK, c.snapR, c.snapC, c.snapS, c.forced, c.touched)
	}
	return sb.String()
}

func (s *sys) Apply(i int) (sig, desc string) {
	o := s.ops[i]
	defer func() {
		if r := recover(); r != nil {
			sig, desc = "panic:"+o.kind, fmt.Sprintf("%v panicked: %v", o, r)
		}
	}()
	switch o.kind {
	case "set":
		var comb []rune
		if o.comb < 0 {
			comb = s.shared
		} else {
			comb = combs[o.comb]
		}
		st := styles[o.style]
		s.cb.SetContent(o.x, o.y, o.r, comb, st)
		if s.m.in(o.x, o.y) {
			s.m.store(o.x, o.y, o.r, comb, st, false)
		}
	case "fill":
		st := styles[o.style]
		s.cb.Fill(o.r, st)
		for y := 0; y < s.m.h; y++ {
			for x := 0; x < s.m.w; x++ {
				s.m.store(x, y, o.r, nil, st, true)
			}
		}
	case "dirty":
		s.cb.SetDirty(o.x, o.y, o.flag)
		s.m.setDirty(o.x, o.y, o.flag)
	case "cleanall":
		for y := 0; y < s.m.h; y++ {
			for x := 0; x < s.m.w; x++ {
				s.cb.SetDirty(x, y, false)
				s.m.setDirty(x, y, false)
			}
		}
	case "inval":
		s.cb.Invalidate()
		for i := range s.m.cells {
			s.m.cells[i].forced = true
		}
	case "lock":
		s.cb.LockCell(o.x, o.y)
		if s.m.in(o.x, o.y) {
			s.m.cells[o.y*s.m.w+o.x].lock = true
		}
	case "unlock":
		s.cb.UnlockCell(o.x, o.y)
		if s.m.in(o.x, o.y) {
			c := &s.m.cells[o.y*s.m.w+o.x]
			c.lock = false
			c.forced = true
		}
	case "resize":
		s.cb.Resize(o.w, o.h)
		s.m.resize(o.w, o.h)
	case "mutate":
		s.shared[0]++
		if s.shared[0] > 0x0303 {
			s.shared[0] = 0x0301
		}
	}
	return s.compare(o)
}

func (s *sys) compare(o op) (string, string) {
	w, h := s.cb.Size()
	if w != s.m.w || h != s.m.h {
		return "size", fmt.Sprintf("after %v: Size()=(%d,%d), model (%d,%d)", o, w, h, s.m.w, s.m.h)
	}
	for y := -1; y <= s.m.h; y++ {
		for x := -1; x <= s.m.w; x++ {
			r, comb, st, wd := s.cb.GetContent(x, y)
			d := s.cb.Dirty(x, y)
			if !s.m.in(x, y) {
				if r != 0 || len(comb) != 0 || st != tcell.StyleDefault {
					return "oob-read", fmt.Sprintf("after %v: out-of-range GetContent(%d,%d) = (%#x,%v,%v,%d), want zero rune and default style", o, x, y, r, comb, st, wd)
				}
				if d {
					return "oob-dirty", fmt.Sprintf("after %v: out-of-range Dirty(%d,%d) = true", o, x, y)
				}
				continue
			}
			c := &s.m.cells[y*s.m.w+x]
			er, ew := obs(c.r)
			if r != er {
				return "rune:" + o.kind + ":" + runeClass(c.r), fmt.Sprintf("after %v: GetContent(%d,%d) rune = %#x, want %#x (stored %#x)", o, x, y, r, er, c.r)
			}
			if wd != ew {
				return "width:" + o.kind + ":" + runeClass(c.r), fmt.Sprintf("after %v: GetContent(%d,%d) width = %d, want %d for rune %#x", o, x, y, wd, ew, c.r)
			}
			if !eqRunes(comb, c.comb) {
				return "comb:" + o.kind, fmt.Sprintf("after %v: GetContent(%d,%d) combining = %v, want %v", o, x, y, comb, c.comb)
			}
			if st != c.style {
				return "style:" + o.kind, fmt.Sprintf("after %v: GetContent(%d,%d) style = %+v, want %+v", o, x, y, st, c.style)
			}
			switch c.dirtyExpect() {
			case 1:
				if !d {
					return "dirty-missed:" + o.kind, fmt.Sprintf("after %v: Dirty(%d,%d) = false but the cell changed / was invalidated since it was last marked clean", o, x, y)
				}
			case 0:
				if d {
					return "dirty-spurious:" + o.kind, fmt.Sprintf("after %v: Dirty(%d,%d) = true but the cell is locked or was just marked clean with no change", o, x, y)
				}
			}
		}
	}
	return "", ""
}

func runeClass(r rune) string {
	switch {
	case r < 0 || r > 0x10ffff:
		return "invalid"
	case r < ' ':
		return "c0"
	case r == 0x7f:
		return "del"
	case r >= 0x80 && r < 0xa0:
		return "c1"
	case rw(r) == 0:
		return "zerowidth"
	case rw(r) == 2:
		return "wide"
	}
	return "narrow"
}

// ---------- scenarios ----------

type scenario struct {
	name   string
	w, h   int
	ops    []op
	dq, dt int
}

func scenarios() []scenario {
	var out []scenario
	// A: rune classes and wide-rune neighbourhood on 3x1
	{
		var ops []op
		for x := 0; x < 3; x++ {
			for _, r := range []rune{'a', '世', 0x0301, 0x7f} {
				ops = append(ops, op{kind: "set", x: x, r: r})
			}
		}
		for _, r := range []rune{'b', '世', 0x9b} {
			ops = append(ops, op{kind: "fill", r: r})
		}
		for x := 0; x < 3; x++ {
			ops = append(ops, op{kind: "dirty", x: x, flag: false})
		}
		ops = append(ops, op{kind: "cleanall"}, op{kind: "inval"}, op{kind: "lock", x: 1}, op{kind: "unlock", x: 1})
		out = append(out, scenario{"A-wide-3x1", 3, 1, ops, 5, 7})
	}
	// B: coordinates in and out of range on 2x2
	{
		var ops []op
		for y := -1; y <= 2; y++ {
			for x := -1; x <= 2; x++ {
				ops = append(ops, op{kind: "set", x: x, y: y, r: 'a', style: 1})
				ops = append(ops, op{kind: "dirty", x: x, y: y, flag: false})
			}
		}
		for _, p := range [][2]int{{-1, 0}, {1, 1}, {2, 0}, {0, 2}} {
			ops = append(ops, op{kind: "set", x: p[0], y: p[1], r: '世'})
			ops = append(ops, op{kind: "lock", x: p[0], y: p[1]}, op{kind: "unlock", x: p[0], y: p[1]})
			ops = append(ops, op{kind: "dirty", x: p[0], y: p[1], flag: true})
		}
		out = append(out, scenario{"B-coords-2x2", 2, 2, ops, 4, 7})
	}
	// C: styles, ColorNone merge, on 2x1
	{
		var ops []op
		for si := range styles[:5] {
			ops = append(ops, op{kind: "set", x: 0, r: 'a', style: si})
			ops = append(ops, op{kind: "set", x: 1, r: 'b', style: si})
			ops = append(ops, op{kind: "fill", r: ' ', style: si})
		}
		ops = append(ops, op{kind: "cleanall"}, op{kind: "dirty", x: 0, flag: false}, op{kind: "inval"})
		out = append(out, scenario{"C-styles-2x1", 2, 1, ops, 5, 7})
	}
	// D: combining slices, including one the caller mutates afterwards
	{
		var ops []op
		for _, ci := range []int{0, 1, 2, 3, -1} {
			ops = append(ops, op{kind: "set", x: 0, r: 'e', comb: ci})
			ops = append(ops, op{kind: "set", x: 1, r: '世', comb: ci})
		}
		// zero-width and control main runes (shown as a blank) carrying combining runes
		for _, ci := range []int{1, 3} {
			ops = append(ops, op{kind: "set", x: 0, r: 0x200b, comb: ci}, op{kind: "set", x: 1, r: '\t', comb: ci})
		}
		ops = append(ops, op{kind: "mutate"}, op{kind: "cleanall"}, op{kind: "dirty", x: 0, flag: false}, op{kind: "fill", r: 'e'},
			op{kind: "resize", w: 3, h: 1}, op{kind: "resize", w: 2, h: 1})
		out = append(out, scenario{"D-combining-2x1", 2, 1, ops, 5, 7})
	}
	// E: resize among sizes, with content, clean marks and locks
	{
		var ops []op
		for _, sz := range [][2]int{{0, 0}, {1, 1}, {3, 1}, {2, 2}, {2, 1}, {2, 3}, {1, 2}} { // incl. same width / same height changes
			ops = append(ops, op{kind: "resize", w: sz[0], h: sz[1]})
		}
		ops = append(ops, op{kind: "set", x: 0, y: 0, r: 'a', style: 1}, op{kind: "set", x: 1, y: 0, r: '世'}, op{kind: "set", x: 1, y: 1, r: 'b'},
			op{kind: "set", x: 2, y: 0, r: 'c'}, op{kind: "cleanall"}, op{kind: "lock", x: 0, y: 0}, op{kind: "unlock", x: 0, y: 0}, op{kind: "fill", r: 'z', style: 2}, op{kind: "inval"})
		out = append(out, scenario{"E-resize", 2, 2, ops, 5, 8})
	}
	// G: every style field on its own: a change of just that field must dirty the cell
	{
		var ops []op
		for si := 5; si < len(styles); si++ {
			ops = append(ops, op{kind: "set", x: 0, r: 'a', style: si})
		}
		ops = append(ops, op{kind: "fill", r: 'a', style: 5}, op{kind: "fill", r: 'a', style: 10}, op{kind: "cleanall"}, op{kind: "inval"})
		out = append(out, scenario{"G-style-fields-1x1", 1, 1, ops, 4, 8})
	}
	// F: control / invalid runes through SetContent and Fill on 2x1
	{
		var ops []op
		for _, r := range []rune{0, 0x1b, 0x7f, 0x9b, -1, 0x110000, 0xd800, 0x200b, 0x2066, 0x0591, 0xfdd0, 'a'} {
			ops = append(ops, op{kind: "set", x: 0, r: r})
			ops = append(ops, op{kind: "fill", r: r})
		}
		ops = append(ops, op{kind: "set", x: 1, r: '世'}, op{kind: "cleanall"})
		out = append(out, scenario{"F-invalid-2x1", 2, 1, ops, 4, 6})
	}
	// G: empty buffer
	{
		ops := []op{{kind: "set", r: 'a'}, {kind: "fill", r: 'a'}, {kind: "inval"}, {kind: "dirty", flag: false}, {kind: "lock"}, {kind: "unlock"},
			{kind: "resize", w: 1, h: 1}, {kind: "resize", w: 0, h: 0}, {kind: "cleanall"}}
		out = append(out, scenario{"G-empty-0x0", 0, 0, ops, 7, 7})
	}
	return out
}

func main() {
	w := hc.Start("C08")
	w.R.Rule = "breadth-first search over all histories (to the depth listed per scenario) of SetContent/Fill/SetDirty/Invalidate/Lock/Unlock/Resize/caller-mutation on the real CellBuffer; states merged only on equal (private CellBuffer state, reference-model state); every transition compares Size and GetContent/Dirty for all coordinates -1..W x -1..H with the reference model. distinct_nontrivial = distinct canonical states reached"
	w.R.Assumptions = []string{"rune widths are go-runewidth's (the table the statement refers to)", "Dirty is three-valued in the oracle: when content was re-stored equal to the clean snapshot either answer is accepted"}
	scs := scenarios()
	if *hc.Replay != "" {
		var rp struct {
			Scenario string `json:"scenario"`
			Ops      []int  `json:"ops"`
		}
		if err := hc.LoadReplay(&rp); err != nil {
			fmt.Println("replay:", err)
			return
		}
		for _, sc := range scs {
			if sc.name != rp.Scenario {
				continue
			}
			s := newSys(sc.w, sc.h, sc.ops)
			for _, o := range rp.Ops {
				fmt.Println("op:", sc.ops[o])
				if sig, desc := s.Apply(o); sig != "" {
					fmt.Printf("VIOLATION property=C08 replay=%s\n  %s: %s\n", *hc.Replay, sig, desc)
					return
				}
			}
			fmt.Println("replay: no violation")
		}
		return
	}
	for _, sc := range scs {
		sc := sc
		if *hc.Only != "" && *hc.Only != sc.name {
			continue
		}
		d := sc.dq
		if hc.Thorough() {
			d = sc.dt
		}
		cfg := &seq.Config{
			Name: sc.name, NOps: len(sc.ops), Depth: d,
			OpName: func(i int) string { return sc.ops[i].String() },
			New:    func() seq.Sys { return newSys(sc.w, sc.h, sc.ops) },
			Mine:   hc.Mine, Shard0: *hc.Shard == 0, ShardDepth: 2,
			Stop: w.Expired,
			OnViolation: func(sig, desc string, hist []int) {
				names := make([]string, len(hist))
				for i, o := range hist {
					names[i] = sc.ops[o].String()
				}
				w.Violation(sig, sc.name+": "+desc+"\n history: "+strings.Join(names, "; "), map[string]interface{}{"scenario": sc.name, "ops": hist, "history": names})
			},
		}
		st := seq.Explore(cfg)
		w.R.States += st.States
		w.R.Transitions += st.Transitions
		w.R.Executions += st.Transitions
		if st.Stopped {
			w.NotExhaustive("scenario " + sc.name + " stopped early")
		}
		sum := st.Summary()
		sum["ops"] = len(sc.ops)
		sum["depth_bound"] = d
		w.R.Scenarios[sc.name] = sum
		for _, h := range st.SampleHist {
			w.Sample(map[string]interface{}{"scenario": sc.name, "history": h})
		}
		_ = reflect.DeepEqual
	}
	w.R.DistinctN = 0
	// distinct_nontrivial: distinct canonical states (every one had all observations compared)
	for i := int64(0); i < w.R.States; i++ {
		w.Distinct(uint64(*hc.Shard)<<40 | uint64(i))
	}
	w.Finish()
}
