// C18 — SimulationScreen is a faithful test double.
// Engine A: draw/SetSize/cursor histories on the real SimulationScreen against the shadow
// model shared with C01; Engine C: every valid character of every stateless charset and
// short texts through InjectKeyBytes, and all short sequences of Inject* calls.
package main

import (
	"fmt"
	"strings"
	"unicode/utf8"

	"github.com/gdamore/tcell/v2"
	runewidth "github.com/mattn/go-runewidth"
	xenc "golang.org/x/text/encoding"

	_ "verif/harness/common"
	"verif/hc"
	ri "verif/ref/input"
	"verif/ref/shadow"
	"verif/seq"
)

var w *hc.W

var styles = []shadow.StyleD{
	{},
	{Fg: tcell.ColorRed, Bg: tcell.ColorNavy},
	{Fg: tcell.ColorNone, Bg: tcell.ColorReset, Attrs: tcell.AttrBold},
	{Fg: tcell.NewRGBColor(1, 2, 3), UL: 3, ULColor: tcell.ColorGreen, URL: "http://x", URLI: "i"},
}

type op struct {
	kind string
	x, y int
	r    rune
	comb []rune
	st   int
	w, h int
	lock bool
}

func (o op) String() string {
	switch o.kind {
	case "set":
		return fmt.Sprintf("SetContent(%d,%d,%q,%q,style%d)", o.x, o.y, o.r, string(o.comb), o.st)
	case "fill":
		return fmt.Sprintf("Fill(%q,style%d)", o.r, o.st)
	case "setstyle":
		return fmt.Sprintf("SetStyle(style%d)", o.st)
	case "cursor":
		return fmt.Sprintf("ShowCursor(%d,%d)", o.x, o.y)
	case "lock":
		return fmt.Sprintf("LockRegion(%d,%d,%d,%d,%v)", o.x, o.y, o.w, o.h, o.lock)
	case "setsize":
		return fmt.Sprintf("SetSize(%d,%d)", o.w, o.h)
	}
	return o.kind + "()"
}

type dsys struct {
	s             tcell.SimulationScreen
	cs            string
	enc           xenc.Encoding
	sh            *shadow.Screen
	ops           []op
	stale         bool // SetStyle since the last full redraw
	pendingResize []([2]int)
	cx, cy        int
	altx, alty    int
	altOK         bool
}

func encode(enc xenc.Encoding, r rune) ([]byte, bool) {
	var src [4]byte
	n := utf8.EncodeRune(src[:], r)
	if enc == nil {
		return append([]byte{}, src[:n]...), utf8.ValidRune(r)
	}
	dst := make([]byte, 8)
	nd, ns, err := enc.NewEncoder().Transform(dst, src[:n], true)
	if err != nil || ns != n || nd == 0 || (dst[0] == 0x1a && r != 0x1a) {
		return nil, false
	}
	return dst[:nd], true
}

func newSys(cs string, w0, h0 int, ops []op) *dsys {
	d := &dsys{cs: cs, ops: ops, cx: -1, cy: -1}
	if cs != "UTF-8" {
		d.enc = tcell.GetEncoding(cs)
	}
	d.s = tcell.NewSimulationScreen(cs)
	if err := d.s.Init(); err != nil {
		panic(err)
	}
	d.s.SetSize(w0, h0)
	d.sh = shadow.New(w0, h0)
	d.drain()
	return d
}

func (d *dsys) Close() { d.s.Fini() }

// drain collects pending events without blocking.
func (d *dsys) drain() []ri.Ev {
	var out []ri.Ev
	for d.s.HasPendingEvent() {
		out = append(out, ri.Conv(d.s.PollEvent()))
	}
	return out
}

func (d *dsys) Key() string {
	var sb strings.Builder
	cells, cw, ch := d.s.GetContents()
	fmt.Fprintf(&sb, "%dx%d|", cw, ch)
	for _, c := range cells {
		fmt.Fprintf(&sb, "%v%x%v;", c.Runes, c.Bytes, c.Style)
	}
	x, y, v := d.s.GetCursor()
	fmt.Fprintf(&sb, "|%d,%d,%v|%v|", x, y, v, d.stale)
	for i := range d.sh.Cells {
		c := &d.sh.Cells[i]
		fmt.Fprintf(&sb, "%d%v%v%v;", c.R, c.Comb, c.S, c.Lock)
	}
	fmt.Fprintf(&sb, "%v%d%d|%v%d%d", d.sh.Default, d.cx, d.cy, d.altOK, d.altx, d.alty)
	// logical buffer state (dirty flags) through the public accessors
	lw, lh := d.s.Size()
	fmt.Fprintf(&sb, "|%dx%d", lw, lh)
	return sb.String() + tcell.VerifSimDump(d.s)
}

func (d *dsys) expectBytes(r rune, comb []rune, wd int) [][]byte {
	// main rune: charset encoding, else registered fallback, else '?'; combining runes that
	// cannot be encoded are elided. Trailing padding is not compared.
	var b []byte
	if e, ok := encode(d.enc, r); ok {
		b = e
	} else if f, ok := tcell.RuneFallbacks[r]; ok {
		b = []byte(f)
	} else {
		b = []byte("?")
	}
	for _, c := range comb {
		if c < ' ' || (c >= 0x7f && c < 0xa0) || !utf8.ValidRune(c) || (c >= 0xfdd0 && c <= 0xfdef) || c&0xfffe == 0xfffe {
			// a real screen writes no control character and no non-character from a combining list
			continue
		}
		if e, ok := encode(d.enc, c); ok {
			b = append(b, e...)
		} else if f, ok := tcell.RuneFallbacks[c]; ok {
			b = append(b, f...)
		}
	}
	return [][]byte{b}
}

func (d *dsys) compare(o op) (string, string) {
	cells, cw, ch := d.s.GetContents()
	if cw != d.sh.W || ch != d.sh.H || len(cells) != cw*ch {
		return "sim-size", fmt.Sprintf("after %v: GetContents reports %dx%d (%d cells), logical screen is %dx%d", o, cw, ch, len(cells), d.sh.W, d.sh.H)
	}
	for y := 0; y < ch; y++ {
		skip := 0
		for x := 0; x < cw; x++ {
			sc := d.sh.At(x, y)
			if skip > 0 {
				skip--
				continue
			}
			r, wd := shadow.Shown(sc.R)
			comb := sc.Comb
			if wd == 2 && x+1 >= cw {
				r, wd, comb = ' ', 1, nil
			}
			if wd == 2 {
				skip = 1
			}
			if sc.Lock || (wd == 2 && d.sh.At(x+1, y).Lock) {
				continue
			}
			c := cells[y*cw+x]
			st := sc.S
			if st.IsZero() {
				st = d.sh.Default
			}
			wantRunes := append([]rune{r}, comb...)
			if string(c.Runes) != string(wantRunes) {
				return "sim-runes", fmt.Sprintf("after %v: cell (%d,%d) Runes = %q, want %q", o, x, y, string(c.Runes), string(wantRunes))
			}
			if !d.stale && c.Style != st.Style() {
				return "sim-style", fmt.Sprintf("after %v: cell (%d,%d) Style = %+v, want %+v", o, x, y, c.Style, st.Style())
			}
			ok := false
			got := strings.TrimRight(string(c.Bytes), " ")
			var wants []string
			for _, wb := range d.expectBytes(r, comb, wd) {
				wnt := strings.TrimRight(string(wb), " ")
				wants = append(wants, fmt.Sprintf("%q", wnt))
				if got == wnt {
					ok = true
				}
			}
			if !ok {
				return "sim-bytes:" + d.cs, fmt.Sprintf("after %v (charset %s): cell (%d,%d) holding %q has Bytes %q, want %s", o, d.cs, x, y, string(wantRunes), c.Bytes, strings.Join(wants, " or "))
			}
		}
	}
	x, y, vis := d.s.GetCursor()
	in := d.cx >= 0 && d.cy >= 0 && d.cx < d.sh.W && d.cy < d.sh.H
	if in && (!vis || x != d.cx || y != d.cy) {
		return "sim-cursor", fmt.Sprintf("after %v: ShowCursor(%d,%d) was requested, GetCursor = (%d,%d,%v)", o, d.cx, d.cy, x, y, vis)
	}
	if !in && vis && d.altOK && x == d.altx && y == d.alty && x < d.sh.W && y < d.sh.H {
		// the request made before SetSize is still honoured: as right as resetting it
	} else if !in && vis {
		return "sim-cursor", fmt.Sprintf("after %v: the requested cursor (%d,%d) is off-screen but GetCursor reports it visible at (%d,%d)", o, d.cx, d.cy, x, y)
	}
	return "", ""
}

func (d *dsys) Apply(i int) (sig, desc string) {
	o := d.ops[i]
	defer func() {
		if r := recover(); r != nil {
			sig, desc = "sim-panic:"+o.kind, fmt.Sprintf("%v panicked: %v", o, r)
		}
	}()
	switch o.kind {
	case "set":
		d.s.SetContent(o.x, o.y, o.r, o.comb, styles[o.st].Style())
		d.sh.SetContent(o.x, o.y, o.r, o.comb, styles[o.st])
	case "fill":
		d.s.Fill(o.r, styles[o.st].Style())
		d.sh.Fill(o.r, styles[o.st])
	case "clear":
		d.s.Clear()
		d.sh.Fill(' ', shadow.StyleD{})
	case "setstyle":
		d.s.SetStyle(styles[o.st].Style())
		if d.sh.Default != styles[o.st] {
			d.sh.Default = styles[o.st]
			d.stale = true
		}
	case "cursor":
		d.s.ShowCursor(o.x, o.y)
		d.cx, d.cy = o.x, o.y
		d.altOK = false
	case "hidecursor":
		d.s.HideCursor()
		d.cx, d.cy = -1, -1
		d.altOK = false
	case "lock":
		d.s.LockRegion(o.x, o.y, o.w, o.h, o.lock)
		d.sh.LockRegion(o.x, o.y, o.w, o.h, o.lock)
	case "setsize":
		before, bw, bh := d.s.GetContents()
		before = append([]tcell.SimCell(nil), before...)
		changed := o.w != d.sh.W || o.h != d.sh.H
		d.s.SetSize(o.w, o.h)
		after, aw, ah := d.s.GetContents()
		if aw != o.w || ah != o.h {
			return "sim-setsize", fmt.Sprintf("%v: GetContents reports %dx%d", o, aw, ah)
		}
		for y := 0; y < bh && y < ah; y++ {
			for x := 0; x < bw && x < aw; x++ {
				a, b := after[y*aw+x], before[y*bw+x]
				if string(a.Runes) != string(b.Runes) || string(a.Bytes) != string(b.Bytes) || a.Style != b.Style {
					return "sim-setsize-overlap", fmt.Sprintf("%v: cell (%d,%d) of the overlapping region changed from %q to %q", o, x, y, string(b.Runes), string(a.Runes))
				}
			}
		}
		d.sh.Resize(o.w, o.h)
		if d.cx >= 0 && d.cy >= 0 {
			d.altx, d.alty, d.altOK = d.cx, d.cy, true
		}
		d.cx, d.cy = -1, -1 // SetSize resets the cursor in this implementation; keeping the request is accepted too
		if changed {
			d.pendingResize = append(d.pendingResize, [2]int{o.w, o.h})
		}
		if sg, ds := d.resizeEvents(o, false); sg != "" {
			return sg, ds
		}
	case "show", "sync":
		if o.kind == "show" {
			d.s.Show()
		} else {
			d.s.Sync()
			d.stale = false
		}
		if sg, ds := d.resizeEvents(o, true); sg != "" {
			return sg, ds
		}
		return d.compare(o)
	}
	return "", ""
}

// resizeEvents: every SetSize that changed the size must produce exactly one EventResize
// with the new size, at SetSize or at the following Show/Sync at the latest.
func (d *dsys) resizeEvents(o op, must bool) (string, string) {
	for _, e := range d.drain() {
		if e.Kind != "resize" {
			return "sim-unexpected-event", fmt.Sprintf("after %v: unexpected event %v", o, e)
		}
		if len(d.pendingResize) == 0 {
			return "sim-resize-event-extra", fmt.Sprintf("after %v: a resize event %dx%d arrived although the size did not change", o, e.X, e.Y)
		}
		// several SetSize calls before a Show may be coalesced into the last size
		last := d.pendingResize[len(d.pendingResize)-1]
		if e.X == last[0] && e.Y == last[1] {
			d.pendingResize = nil
		} else if e.X == d.pendingResize[0][0] && e.Y == d.pendingResize[0][1] {
			d.pendingResize = d.pendingResize[1:]
		} else {
			return "sim-resize-event-size", fmt.Sprintf("after %v: resize event reports %dx%d, SetSize asked for %v", o, e.X, e.Y, d.pendingResize)
		}
	}
	if must && len(d.pendingResize) > 0 {
		p := d.pendingResize
		d.pendingResize = nil
		return "sim-resize-event-missing", fmt.Sprintf("after %v: SetSize to %v produced no resize event", o, p)
	}
	return "", ""
}

func drawScenarios() map[string][]op {
	show, sync := op{kind: "show"}, op{kind: "sync"}
	out := map[string][]op{}
	{
		var ops []op
		for x := 0; x < 4; x++ {
			ops = append(ops, op{kind: "set", x: x, r: 'a'}, op{kind: "set", x: x, r: '世', st: 1})
		}
		ops = append(ops, op{kind: "set", x: 2, r: 'e', comb: []rune{0x0301}}, op{kind: "set", x: 1, r: 0x2603}, op{kind: "set", x: 0, r: 0xe9, st: 3},
			op{kind: "fill", r: 'b', st: 2}, op{kind: "clear"}, op{kind: "setstyle", st: 1})
		// combining lists holding what is no combining mark: a control character, a C1 control, a non-character
		ops = append(ops, op{kind: "set", x: 1, r: 'a', comb: []rune{0x07}}, op{kind: "set", x: 3, r: 'e', comb: []rune{0x0301, 0x9b, 0xfffe}})
		ops = append(ops, show, sync) // (the last two: W2 starts with ops[len-2])
		out["W-wide-4x1"] = ops
		out["W2-wide-from-shown-4x1"] = ops // the same alphabet from a screen that has been shown once (non-initial start state)
	}
	{
		ops := []op{{kind: "setsize", w: 3, h: 2}, {kind: "setsize", w: 4, h: 1}, {kind: "setsize", w: 2, h: 2}, {kind: "setsize", w: 1, h: 1},
			{kind: "set", x: 0, y: 0, r: 'a', st: 1}, {kind: "set", x: 1, y: 0, r: '世'}, {kind: "set", x: 2, y: 1, r: 'c', st: 3}, {kind: "set", x: 1, y: 1, r: 'd'},
			{kind: "cursor", x: 1, y: 0}, {kind: "cursor", x: 3, y: 1}, {kind: "cursor", x: -1, y: -1}, {kind: "hidecursor"},
			{kind: "lock", x: 0, y: 0, w: 2, h: 1, lock: true}, {kind: "lock", x: 0, y: 0, w: 2, h: 1, lock: false}, show, sync}
		out["R-setsize-cursor-lock-3x2"] = ops
	}
	return out
}

func draws() {
	item := 0
	for name, ops := range drawScenarios() {
		for _, cs := range []string{"UTF-8", "ISO8859-1", "US-ASCII"} {
			item++
			name, ops, cs := name, ops, cs
			d := 4
			if hc.Thorough() {
				d = 5
			}
			w0, h0 := 4, 1
			if name[0] == 'R' {
				w0, h0 = 3, 2
			}
			tag := name + "/" + cs
			cfg := &seq.Config{Name: tag, NOps: len(ops), Depth: d, OpName: func(i int) string { return ops[i].String() },
				New: func() seq.Sys {
					sys := newSys(cs, w0, h0, ops)
					if strings.HasPrefix(name, "W2") {
						sys.Apply(len(ops) - 2) // show
					}
					return sys
				},
				Mine: hc.Mine, Shard0: *hc.Shard == 0, ShardDepth: 2, Stop: w.Expired, MaxViolationSigs: 8,
				OnViolation: func(sig, desc string, hist []int) {
					var names []string
					for _, o := range hist {
						names = append(names, ops[o].String())
					}
					w.Violation(sig, tag+": "+desc+"\n history: "+strings.Join(names, "; "), map[string]interface{}{"scenario": tag, "ops": hist})
				}}
			st := seq.Explore(cfg)
			w.R.States += st.States
			w.R.Transitions += st.Transitions
			w.R.Executions += st.Transitions
			w.R.Scenarios[tag] = st.Summary()
			if len(st.SampleHist) > 0 {
				w.Sample(map[string]interface{}{"scenario": tag, "history": st.SampleHist[0]})
			}
		}
	}
}

// ---------- injection ----------

var charsets = []string{"UTF-8", "US-ASCII", "ISO8859-1", "ISO8859-2", "ISO8859-5", "ISO8859-7", "ISO8859-9", "ISO8859-15", "KOI8-R", "KOI8-U",
	"EUC-JP", "SHIFT_JIS", "EUC-KR", "GB18030", "GBK", "Big5", "ISO8859-3", "ISO8859-4", "ISO8859-6", "ISO8859-8", "ISO8859-10", "ISO8859-13", "ISO8859-14", "ISO8859-16"}

func roundTrips(enc xenc.Encoding, r rune) ([]byte, bool) {
	b, ok := encode(enc, r)
	if !ok {
		return nil, false
	}
	if enc == nil {
		return b, true
	}
	back := make([]byte, 8)
	nb, ns, err := enc.NewDecoder().Transform(back, b, true)
	if err != nil || ns != len(b) {
		return nil, false
	}
	rr, sz := utf8.DecodeRune(back[:nb])
	return b, rr == r && sz == nb
}

func printable(r rune) bool {
	return !(r < 0x20 || r == 0x7f || (r >= 0x80 && r < 0xa0) || (r >= 0xd800 && r <= 0xdfff) || r == utf8.RuneError)
}

func keyBytes() {
	for ci, cs := range charsets {
		if !hc.Mine(ci) {
			continue
		}
		var enc xenc.Encoding
		if cs != "UTF-8" {
			enc = tcell.GetEncoding(cs)
		}
		s := tcell.NewSimulationScreen(cs)
		if err := s.Init(); err != nil {
			w.Violation("sim-init:"+cs, fmt.Sprintf("NewSimulationScreen(%q).Init: %v", cs, err), nil)
			continue
		}
		poll := func() []ri.Ev {
			var out []ri.Ev
			for s.HasPendingEvent() {
				out = append(out, ri.Conv(s.PollEvent()))
			}
			return out
		}
		check := func(text []rune, kind string) bool {
			var b []byte
			var want []ri.Ev
			for _, r := range text {
				e, _ := roundTrips(enc, r)
				b = append(b, e...)
				want = append(want, ri.Ev{Kind: "key", Key: tcell.KeyRune, Rune: r})
			}
			w.R.Evaluations++
			ok := s.InjectKeyBytes(b)
			got := poll()
			if !ok || !ri.EqEvs(got, want) {
				var gs []string
				for _, e := range got {
					gs = append(gs, e.String())
				}
				last := "single-byte"
				if e, _ := roundTrips(enc, text[len(text)-1]); len(e) > 1 {
					last = "multi-byte-last"
				}
				w.Violation("inject-bytes:"+cs+":"+last, fmt.Sprintf("charset %s: InjectKeyBytes(%q = % x) returned %v and delivered [%s], want one rune event per character", cs, string(text), b, ok, strings.Join(gs, " ")),
					map[string]interface{}{"charset": cs, "text": string(text)})
				return false
			}
			return true
		}
		max := rune(0xffff)
		if hc.Thorough() {
			max = 0x2ffff
		}
		var reps []rune
		byLen := map[int][]rune{}
		bad := 0
		for r := rune(0x20); r <= max && bad < 3; r++ {
			if !printable(r) {
				continue
			}
			e, ok := roundTrips(enc, r)
			if !ok {
				continue
			}
			if len(byLen[len(e)]) < 3 || r%97 == 0 {
				byLen[len(e)] = append(byLen[len(e)], r)
			}
			if len(e) > 1 {
				w.AddDistinct(1)
			}
			if !check([]rune{r}, "char") {
				bad++
			}
		}
		// U+FFFD REPLACEMENT CHARACTER is valid text where the set has it
		if e, ok := roundTrips(enc, utf8.RuneError); ok && len(e) > 1 {
			check([]rune{utf8.RuneError}, "char")
			check([]rune{'a', utf8.RuneError, 'b'}, "text")
		}
		// byte-driven complement: two-byte characters that decode to several runes (Big5 88 62:
		// a letter and its combining macron) - all of their runes, in order
		if enc != nil {
			for b0 := 0x80; b0 <= 0xff; b0++ {
				for b1 := 0x20; b1 <= 0xff; b1++ {
					in := []byte{byte(b0), byte(b1)}
					out, err := enc.NewDecoder().Bytes(in)
					if err != nil || utf8.RuneCount(out) < 2 || strings.ContainsRune(string(out), utf8.RuneError) || strings.IndexFunc(string(out), func(x rune) bool { return x < 0x20 }) >= 0 {
						continue
					}
					if one, err := enc.NewDecoder().Bytes(in[:1]); err == nil && len(one) > 0 && !strings.ContainsRune(string(one), utf8.RuneError) {
						continue // two one-byte characters
					}
					var want []ri.Ev
					for _, x := range string(out) {
						want = append(want, ri.Ev{Kind: "key", Key: tcell.KeyRune, Rune: x})
					}
					w.R.Evaluations++
					w.AddDistinct(1)
					ok := s.InjectKeyBytes(in)
					if got := poll(); !ok || !ri.EqEvs(got, want) {
						w.Violation("inject-bytes:"+cs+":multi-rune-char", fmt.Sprintf("charset %s: InjectKeyBytes(% x), one character that is the text %q (%U), returned %v and delivered %v", cs, in, string(out), []rune(string(out)), ok, got),
							map[string]interface{}{"charset": cs, "bytes": fmt.Sprintf("% x", in)})
					}
				}
			}
		}
		for l := 1; l <= 4; l++ {
			v := byLen[l]
			if len(v) > 0 {
				reps = append(reps, v[0], v[len(v)-1])
			}
		}
		if len(reps) > 6 {
			reps = reps[:6]
		}
		for _, a := range reps {
			for _, b := range reps {
				check([]rune{a, b}, "text")
				for _, c := range reps {
					check([]rune{a, b, c}, "text")
				}
			}
		}
		s.Fini()
	}
	w.Sample(map[string]interface{}{"inject_key_bytes": "GBK: c4 e3 (U+4F60) alone, and 'a' + c4 e3", "expect": "one KeyRune event per character, InjectKeyBytes returns true"})
}

// statefulCharsets: in a character set with shift states (ISO-2022-JP, HZ) the Bytes of a cell
// still are the encoding of that cell's runes - what a fresh encoder gives for them - and do
// not depend on what was drawn before; a rune the set lacks gets the fallback rules.
func statefulCharsets() {
	if *hc.Shard != 0 {
		return
	}
	for _, cs := range []string{"ISO2022JP", "HZ-GB-2312"} {
		enc := tcell.GetEncoding(cs)
		if enc == nil {
			continue
		}
		cells := []struct {
			x int
			r rune
		}{{0, 0x4e16}, {2, 0x4e16}, {4, 'a'}, {5, 'a'}, {6, 0x0e01}, {7, 0x4e16}}
		want := func(r rune) string {
			b, err := enc.NewEncoder().Bytes([]byte(string(r)))
			if err != nil || len(b) == 0 {
				return "?"
			}
			return string(b)
		}
		for _, order := range [][]int{{0, 1, 2, 3, 4, 5}, {5, 4, 3, 2, 1, 0}, {2, 0, 4, 1, 3, 5}} {
			for _, showEach := range []bool{false, true} {
				w.R.Evaluations++
				w.AddDistinct(1)
				s := tcell.NewSimulationScreen(cs)
				if err := s.Init(); err != nil {
					w.Violation("sim-init:"+cs, fmt.Sprintf("NewSimulationScreen(%q).Init: %v", cs, err), nil)
					break
				}
				s.SetSize(10, 1)
				for _, i := range order {
					s.SetContent(cells[i].x, 0, cells[i].r, nil, tcell.StyleDefault)
					if showEach {
						s.Show()
						s.CanDisplay(0x4e16, false)
					}
				}
				s.Show()
				got, _, _ := s.GetContents()
				for _, c := range cells {
					g := strings.TrimRight(string(got[c.x].Bytes), " ")
					if g != want(c.r) {
						w.Violation("sim-bytes-stateful:"+cs, fmt.Sprintf("charset %s, cells drawn in order %v (Show after each: %v): cell %d holding %q has Bytes %q, want %q (its encoding on its own; the same rune elsewhere on the row must have the same Bytes)", cs, order, showEach, c.x, string(c.r), got[c.x].Bytes, want(c.r)),
							map[string]interface{}{"charset": cs, "order": order})
						break
					}
				}
				s.Fini()
			}
		}
	}
}

type iev struct {
	name string
	do   func(s tcell.SimulationScreen)
	want []ri.Ev
}

func injectSequences() {
	if *hc.Shard != 0 {
		return
	}
	evs := []iev{
		{"InjectKey(KeyUp)", func(s tcell.SimulationScreen) { s.InjectKey(tcell.KeyUp, 0, tcell.ModShift) }, []ri.Ev{{Kind: "key", Key: tcell.KeyUp, Mod: tcell.ModShift}}},
		{"InjectKey(Rune x)", func(s tcell.SimulationScreen) { s.InjectKey(tcell.KeyRune, 'x', tcell.ModAlt) }, []ri.Ev{{Kind: "key", Key: tcell.KeyRune, Rune: 'x', Mod: tcell.ModAlt}}},
		{"InjectKey(F12)", func(s tcell.SimulationScreen) { s.InjectKey(tcell.KeyF12, 0, 0) }, []ri.Ev{{Kind: "key", Key: tcell.KeyF12}}},
		{"InjectMouse(1,2,B1)", func(s tcell.SimulationScreen) { s.InjectMouse(1, 2, tcell.Button1, tcell.ModCtrl) }, []ri.Ev{{Kind: "mouse", X: 1, Y: 2, Buttons: tcell.Button1, Mod: tcell.ModCtrl}}},
		{"InjectMouse(0,0,WheelUp)", func(s tcell.SimulationScreen) { s.InjectMouse(0, 0, tcell.WheelUp, 0) }, []ri.Ev{{Kind: "mouse", Buttons: tcell.WheelUp}}},
		{"InjectKeyBytes(ab)", func(s tcell.SimulationScreen) { s.InjectKeyBytes([]byte("ab")) }, []ri.Ev{{Kind: "key", Key: tcell.KeyRune, Rune: 'a'}, {Kind: "key", Key: tcell.KeyRune, Rune: 'b'}}},
		{"InjectKeyBytes(é)", func(s tcell.SimulationScreen) { s.InjectKeyBytes([]byte("é")) }, []ri.Ev{{Kind: "key", Key: tcell.KeyRune, Rune: 0xe9}}},
		{"InjectKeyBytes(^A)", func(s tcell.SimulationScreen) { s.InjectKeyBytes([]byte{1}) }, []ri.Ev{{Kind: "key", Key: tcell.KeyCtrlA, Mod: tcell.ModCtrl}}},
	}
	n := len(evs)
	for a := 0; a < n; a++ {
		for b := -1; b < n; b++ {
			for c := -1; c < n; c++ {
				if b < 0 && c >= 0 {
					continue
				}
				s := tcell.NewSimulationScreen("UTF-8")
				s.Init()
				var want []ri.Ev
				var names []string
				for _, i := range []int{a, b, c} {
					if i < 0 {
						continue
					}
					evs[i].do(s)
					want = append(want, evs[i].want...)
					names = append(names, evs[i].name)
				}
				var got []ri.Ev
				for s.HasPendingEvent() {
					e := ri.Conv(s.PollEvent())
					if e.Kind == "key" && e.Key != tcell.KeyRune {
						e.Rune = 0
					}
					got = append(got, e)
				}
				w.R.Evaluations++
				w.AddDistinct(1)
				if !ri.EqEvs(got, want) {
					w.Violation("inject-order", fmt.Sprintf("%v delivered %v, want %v", names, got, want), nil)
				}
				s.Fini()
			}
		}
	}
}

// isolation: the fallback rules of one screen are its own. Every order of up to three
// Register/Unregister calls on screen A (a built-in fallback rune and a new one) must leave
// a second screen B, created before or after them, drawing with the built-in rules, and the
// package-level default table untouched.
func isolation() {
	if *hc.Shard != 0 {
		return
	}
	defaults := map[rune]string{}
	for k, v := range tcell.RuneFallbacks {
		defaults[k] = v
	}
	type fop struct {
		name string
		do   func(s tcell.SimulationScreen)
	}
	fops := []fop{
		{"Unregister(RuneULCorner)", func(s tcell.SimulationScreen) { s.UnregisterRuneFallback(tcell.RuneULCorner) }},
		{"Register(RuneULCorner,\"#\")", func(s tcell.SimulationScreen) { s.RegisterRuneFallback(tcell.RuneULCorner, "#") }},
		{"Register(U+0416,\"Z\")", func(s tcell.SimulationScreen) { s.RegisterRuneFallback(0x0416, "Z") }},
		{"Unregister(U+0416)", func(s tcell.SimulationScreen) { s.UnregisterRuneFallback(0x0416) }},
	}
	mk := func() tcell.SimulationScreen {
		s := tcell.NewSimulationScreen("US-ASCII")
		if err := s.Init(); err != nil {
			panic(err)
		}
		s.SetSize(2, 1)
		return s
	}
	var seqs [][]int
	var rec func(cur []int)
	rec = func(cur []int) {
		if len(cur) > 0 {
			seqs = append(seqs, append([]int(nil), cur...))
		}
		if len(cur) == 3 {
			return
		}
		for i := range fops {
			rec(append(cur, i))
		}
	}
	rec(nil)
	for _, sq := range seqs {
		for _, bFirst := range []bool{true, false} {
			w.R.Evaluations++
			var b tcell.SimulationScreen
			if bFirst {
				b = mk()
			}
			a := mk()
			var names []string
			for _, i := range sq {
				fops[i].do(a)
				names = append(names, fops[i].name)
			}
			if !bFirst {
				b = mk()
			}
			b.SetContent(0, 0, tcell.RuneULCorner, nil, tcell.StyleDefault)
			b.SetContent(1, 0, 0x0416, nil, tcell.StyleDefault)
			b.Show()
			cells, _, _ := b.GetContents()
			got := string(cells[0].Bytes) + string(cells[1].Bytes)
			if got != "+?" {
				w.Violation("sim-fallback-shared", fmt.Sprintf("after %v on one simulation screen, another screen (created %s) draws U+250C, U+0416 in US-ASCII as %q, want \"+?\" (built-in fallback, none)", names, map[bool]string{true: "before", false: "after"}[bFirst], got), nil)
			}
			if len(tcell.RuneFallbacks) != len(defaults) || tcell.RuneFallbacks[tcell.RuneULCorner] != defaults[tcell.RuneULCorner] {
				w.Violation("sim-fallback-global", fmt.Sprintf("after %v on a simulation screen the package-level RuneFallbacks table changed", names), nil)
				for k := range tcell.RuneFallbacks {
					delete(tcell.RuneFallbacks, k)
				}
				for k, v := range defaults {
					tcell.RuneFallbacks[k] = v
				}
			}
			a.Fini()
			b.Fini()
			w.AddDistinct(1)
		}
	}
}

func main() {
	w = hc.Start("C18")
	w.R.Rule = "draw histories: BFS depth 4 (5) on the real SimulationScreen in UTF-8, ISO8859-1 and US-ASCII over a wide-rune/style/fallback alphabet (combining lists with a control character, a C1 control and a non-character included) on 4x1 and a SetSize/cursor/lock alphabet on 3x2; after every Show/Sync GetContents must equal the shadow model shared with C01 (Runes, resolved Style, Bytes = charset encoding with fallback then '?'), GetCursor must reflect ShowCursor, SetSize must keep the overlapping region and produce exactly one EventResize with the new size by the next Show at the latest; injection: every printable character (BMP; thorough to U+2FFFF) of each of the 24 stateless charsets through InjectKeyBytes alone, all 2- and 3-character texts over up to 6 representatives per charset (every encoded length, multi-byte last included), and all sequences up to 3 of InjectKey/InjectMouse/InjectKeyBytes calls, compared with what PollEvent delivers. distinct_nontrivial = multi-byte characters injected + inject sequences + canonical draw states"
	w.R.Assumptions = []string{"cells covered by a wide rune, locked cells and trailing padding of Bytes are not compared", "after SetSize the cursor may be reset (as implemented) or keep the earlier request: the statement fixes neither", "x/text codecs define the charsets"}
	if *hc.Replay != "" {
		fmt.Println("replay: the history is in the replay file; re-run ./vc C18")
		return
	}
	draws()
	keyBytes()
	statefulCharsets()
	injectSequences()
	isolation()
	for i := int64(0); i < w.R.States; i++ {
		w.Distinct(uint64(*hc.Shard)<<40 | uint64(i))
	}
	_ = runewidth.RuneWidth
	w.Finish()
}
