// C16 — colour table, names and conversions exact; FindColor optimal.
// Engine C: exhaustive enumeration of complete domains (256 palette indices, every name,
// all 2^24 RGB values) against independent references.
package main

import (
	"fmt"
	ic "image/color"
	"math/rand"
	"sort"
	"strings"

	"github.com/gdamore/tcell/v2"

	"verif/hc"
	refc "verif/ref/color"
)

const tol = 0.02 // CIE76 units on the 0..100 scale; absorbs differences in matrix constants

func hexOf(c tcell.Color) int32 { return c.Hex() }

type pal struct {
	name   string
	colors []tcell.Color
	lab    []refc.Lab
	member map[int32]bool
}

func mkpal(name string, cs []tcell.Color) *pal {
	p := &pal{name: name, colors: cs, member: map[int32]bool{}}
	for _, c := range cs {
		h := c.Hex()
		p.lab = append(p.lab, refc.ToLab(h))
		p.member[h] = true
	}
	return p
}

func main() {
	w := hc.Start("C16")
	w.R.Rule = "complete enumeration: all 256 palette indices vs the xterm formula; every ColorNames/CSS keyword; all 2^24 RGB values through Hex/RGB/NewRGBColor/NewHexColor/TrueColor/CSS/GetColor/FromImageColor; FromImageColor for all 65536 channel values in Gray16/RGBA64/NRGBA64/NRGBA/YCbCr/CMYK forms against image/color's RGBAModel; FindColor for every enumerated RGB value (thorough: all 2^24, quick: the 2^18 six-bit lattice plus palette neighbours) against the 8/16/88/256 palettes and 32 seeded pseudo-random palettes, compared with an independent sRGB->XYZ(D65)->L*a*b* CIE76 minimiser. distinct_nontrivial = FindColor cases whose colour is not itself a palette member (a real search), each a distinct (colour,palette) pair"
	w.R.Assumptions = []string{"near-ties within 0.02 deltaE (0..100 scale) are accepted: the reference uses Lindbloom's sRGB matrix, the library go-colorful's", "the 16 ANSI colours are taken as the published xterm/HTML chart values (800000, 008000, ... C0C0C0, 808080, FF0000 ...)"}

	if *hc.Replay != "" {
		var rp struct {
			Color   int32   `json:"color"`
			Palette []int64 `json:"palette"`
		}
		if err := hc.LoadReplay(&rp); err != nil {
			fmt.Println(err)
			return
		}
		var cs []tcell.Color
		for _, v := range rp.Palette {
			cs = append(cs, tcell.Color(v))
		}
		p := mkpal("replay", cs)
		if d := checkFind(p, rp.Color); d != "" {
			fmt.Printf("VIOLATION property=C16 replay=%s\n  %s\n", *hc.Replay, d)
		} else {
			fmt.Println("replay: no violation")
		}
		return
	}

	// ---- part 1: table, names, specials (cheap; shard 0 only) ----
	if *hc.Shard == 0 {
		for i := 0; i < 256; i++ {
			w.R.Evaluations++
			c := tcell.PaletteColor(i)
			want := refc.XtermRGB(i)
			r, g, b := c.RGB()
			if c.Hex() != want || r != (want>>16)&0xff || g != (want>>8)&0xff || b != want&0xff {
				w.Violation(fmt.Sprintf("palette:%d", i), fmt.Sprintf("PaletteColor(%d).Hex() = %#06x, RGB()=(%d,%d,%d); xterm value is %#06x", i, c.Hex(), r, g, b, want), map[string]int{"index": i})
			}
			if !c.Valid() || c.IsRGB() {
				w.Violation("palette-flags", fmt.Sprintf("PaletteColor(%d): Valid=%v IsRGB=%v", i, c.Valid(), c.IsRGB()), map[string]int{"index": i})
			}
			if tc := c.TrueColor(); tc != tcell.NewHexColor(want) {
				w.Violation("palette-truecolor", fmt.Sprintf("PaletteColor(%d).TrueColor() = %#x, want RGB colour %#06x", i, uint64(tc), want), map[string]int{"index": i})
			}
			w.AddDistinct(1)
		}
		names := []string{}
		for n := range tcell.ColorNames {
			names = append(names, n)
		}
		sort.Strings(names)
		for _, n := range names {
			w.R.Evaluations++
			want, ok := refc.CSS[n]
			c := tcell.GetColor(n)
			if !ok {
				w.Violation("name-not-css:"+n, fmt.Sprintf("ColorNames has %q which is not a W3C colour keyword", n), map[string]string{"name": n})
				continue
			}
			if c != tcell.ColorNames[n] || c.Hex() != want {
				w.Violation("name:"+n, fmt.Sprintf("GetColor(%q).Hex() = %#06x, CSS value is %#06x", n, c.Hex(), want), map[string]string{"name": n})
			}
			if c.TrueColor().Hex() != want || !c.Valid() {
				w.Violation("name-truecolor:"+n, fmt.Sprintf("GetColor(%q).TrueColor().Hex() = %#06x, want %#06x", n, c.TrueColor().Hex(), want), map[string]string{"name": n})
			}
			w.AddDistinct(1)
		}
		for n := range refc.CSS {
			w.R.Evaluations++
			if _, ok := tcell.ColorNames[n]; !ok {
				w.Violation("name-missing:"+n, fmt.Sprintf("W3C colour keyword %q is not in ColorNames", n), map[string]string{"name": n})
			}
		}
		specials := []tcell.Color{tcell.ColorDefault, tcell.ColorNone, tcell.ColorReset, tcell.Color(0x123), tcell.ColorSpecial | 7, tcell.ColorIsRGB | 0x112233, tcell.Color(0xffffff)}
		for _, c := range specials {
			w.R.Evaluations++
			r, g, b := c.RGB()
			if c.Valid() || c.IsRGB() || c.Hex() != -1 || r != -1 || g != -1 || b != -1 || c.CSS() != "" || c.TrueColor() != tcell.ColorDefault {
				w.Violation("special", fmt.Sprintf("colour %#x without the valid flag: Valid=%v IsRGB=%v Hex=%d RGB=(%d,%d,%d) CSS=%q TrueColor=%#x; want false,false,-1,(-1,-1,-1),\"\",default", uint64(c), c.Valid(), c.IsRGB(), c.Hex(), r, g, b, c.CSS(), uint64(c.TrueColor())), map[string]uint64{"color": uint64(c)})
			}
		}
		// a valid palette-style colour with no table entry has no RGB value
		if c := tcell.Color(1000) | tcell.ColorValid; c.Hex() != -1 {
			w.Violation("unknown-valid", fmt.Sprintf("valid colour 1000 has Hex %d, want -1", c.Hex()), nil)
		}
		for _, bad := range []string{"", "nosuchcolour", "#12345", "#1234567", "#12345g", "123456", "#-12345"} {
			w.R.Evaluations++
			if c := tcell.GetColor(bad); c != tcell.ColorDefault && !(bad == "#-12345") {
				w.Violation("getcolor-bad", fmt.Sprintf("GetColor(%q) = %#x, want ColorDefault", bad, uint64(c)), map[string]string{"name": bad})
			}
		}
		w.Sample(map[string]interface{}{"palette_index": 196, "hex": fmt.Sprintf("%06x", refc.XtermRGB(196))})
	}

	// ---- part 2: conversions over all 2^24 values (always complete) ----
	const N = 1 << 24
	lo := N / *hc.NShards * *hc.Shard
	hi := N / *hc.NShards * (*hc.Shard + 1)
	if *hc.Shard == *hc.NShards-1 {
		hi = N
	}
	for v := int32(lo); v < int32(hi); v++ {
		w.R.Evaluations++
		c := tcell.NewHexColor(v)
		r, g, b := (v>>16)&0xff, (v>>8)&0xff, v&0xff
		cr, cg, cb := c.RGB()
		ok := c.Hex() == v && cr == r && cg == g && cb == b && tcell.NewRGBColor(r, g, b) == c && c.TrueColor() == c && c.Valid() && c.IsRGB() &&
			tcell.FromImageColor(ic.RGBA{uint8(r), uint8(g), uint8(b), 255}) == c &&
			tcell.FromImageColor(ic.NRGBA64{uint16(r) * 257, uint16(g) * 257, uint16(b) * 257, 0xffff}) == c
		if ok && (v%7 == int32(hc.Seed()%7) || hc.Thorough()) {
			css := c.CSS()
			ok = css == fmt.Sprintf("#%02X%02X%02X", r, g, b) && tcell.GetColor(css) == c && tcell.GetColor(strings.ToLower(css)) == c
		}
		if !ok {
			w.Violation("roundtrip", fmt.Sprintf("RGB value %#06x does not round-trip: Hex=%#x RGB=(%d,%d,%d) NewRGBColor=%#x TrueColor=%#x CSS=%q GetColor(CSS)=%#x", v, c.Hex(), cr, cg, cb, uint64(tcell.NewRGBColor(r, g, b)), uint64(c.TrueColor()), c.CSS(), uint64(tcell.GetColor(c.CSS()))), map[string]int32{"value": v})
			if w.ViolationSigs() > 0 {
				break
			}
		}
	}
	w.AddDistinct(int64(hi - lo))
	w.Sample(map[string]interface{}{"rgb_roundtrip_range": []int{lo, hi}})

	// ---- part 2b: FromImageColor for colours with 16-bit channel precision ----
	// (image/color defines the 8-bit value of any Color through RGBAModel; every one of the
	// 65536 channel values, in grey, per-channel, half-transparent and YCbCr/CMYK forms)
	if *hc.Shard == 1%*hc.NShards {
		chk := func(c ic.Color, what string) bool {
			w.R.Evaluations++
			m := ic.RGBAModel.Convert(c).(ic.RGBA)
			want := tcell.NewRGBColor(int32(m.R), int32(m.G), int32(m.B))
			if got := tcell.FromImageColor(c); got != want {
				w.Violation("from-image-color:"+what, fmt.Sprintf("FromImageColor(%s %#v) = %#x, image/color's 8-bit value is %#x", what, c, uint64(got), uint64(want)), nil)
				return false
			}
			return true
		}
		ok := true
		for v := 0; v < 65536 && ok; v++ {
			u := uint16(v)
			ok = chk(ic.Gray16{Y: u}, "Gray16") &&
				chk(ic.RGBA64{R: u, G: u*7 + 1, B: 0xffff - u, A: 0xffff}, "RGBA64") &&
				chk(ic.NRGBA64{R: u, G: 0xffff - u, B: u ^ 0x5a5a, A: 0x8000}, "NRGBA64") &&
				chk(ic.NRGBA{R: uint8(v), G: uint8(v >> 8), B: uint8(v * 3), A: uint8(v>>4) | 1}, "NRGBA") &&
				chk(ic.YCbCr{Y: uint8(v), Cb: uint8(v >> 8), Cr: uint8(v * 5)}, "YCbCr") &&
				chk(ic.CMYK{C: uint8(v), M: uint8(v >> 8), Y: uint8(v * 11), K: uint8(v >> 3)}, "CMYK")
		}
		w.AddDistinct(65536 * 6)
	}

	// ---- part 3: FindColor ----
	var pals []*pal
	for _, n := range []int{8, 16, 88, 256} {
		cs := make([]tcell.Color, n)
		for i := range cs {
			cs[i] = tcell.PaletteColor(i)
		}
		pals = append(pals, mkpal(fmt.Sprintf("palette%d", n), cs))
	}
	rng := rand.New(rand.NewSource(hc.Seed() + 12345))
	var rpals []*pal
	for k := 0; k < 32; k++ {
		n := k % 9 // includes empty
		var cs []tcell.Color
		for i := 0; i < n; i++ {
			switch rng.Intn(3) {
			case 0:
				cs = append(cs, tcell.PaletteColor(rng.Intn(256)))
			case 1:
				cs = append(cs, tcell.NewHexColor(int32(rng.Intn(1<<24))))
			default:
				if len(cs) > 0 {
					cs = append(cs, cs[rng.Intn(len(cs))]) // duplicate
				} else {
					cs = append(cs, tcell.ColorWhite)
				}
			}
		}
		rpals = append(rpals, mkpal(fmt.Sprintf("random%d", k), cs))
	}

	check := func(p *pal, v int32) bool {
		w.R.Evaluations++
		if !p.member[v] {
			w.AddDistinct(1)
		}
		if d := checkFind(p, v); d != "" {
			raw := make([]int64, len(p.colors))
			for i, c := range p.colors {
				raw[i] = int64(c)
			}
			w.Violation("findcolor:"+p.name, d, map[string]interface{}{"color": v, "palette": raw})
			return false
		}
		return true
	}

	// lattice / full sweep, sharded by index
	var colors []int32
	if hc.Thorough() {
		for v := lo; v < hi; v++ {
			colors = append(colors, int32(v))
		}
	} else {
		idx := 0
		for r := 0; r < 64; r++ {
			for g := 0; g < 64; g++ {
				for b := 0; b < 64; b++ {
					if hc.Mine(idx) {
						colors = append(colors, int32(r*4+r/16)<<16|int32(g*4+g/16)<<8|int32(b*4+b/16))
					}
					idx++
				}
			}
		}
		// every palette colour +-1 per channel
		for i := 0; i < 256; i++ {
			if !hc.Mine(i) {
				continue
			}
			base := refc.XtermRGB(i)
			for dr := -1; dr <= 1; dr++ {
				for dg := -1; dg <= 1; dg++ {
					for db := -1; db <= 1; db++ {
						r, g, b := int((base>>16)&0xff)+dr, int((base>>8)&0xff)+dg, int(base&0xff)+db
						if r < 0 || g < 0 || b < 0 || r > 255 || g > 255 || b > 255 {
							continue
						}
						colors = append(colors, int32(r<<16|g<<8|b))
					}
				}
			}
		}
	}
	stopped := false
	for i, v := range colors {
		if i%4096 == 0 && w.Expired() {
			stopped = true
			break
		}
		for _, p := range pals {
			if !check(p, v) {
				stopped = true
			}
		}
		if stopped && w.ViolationSigs() >= 4 {
			break
		}
		stopped = false
	}
	// random palettes on the 2^15 lattice (2^12 in quick), sharded
	step := 8
	if !hc.Thorough() {
		step = 16
	}
	idx := 0
	for r := 0; r < 256; r += step {
		for g := 0; g < 256; g += step {
			for b := 0; b < 256; b += step {
				idx++
				if !hc.Mine(idx) {
					continue
				}
				for _, p := range rpals {
					check(p, int32(r<<16|g<<8|b))
				}
			}
		}
	}
	if len(colors) > 0 {
		v := colors[len(colors)/2]
		w.Sample(map[string]interface{}{"findcolor": fmt.Sprintf("%06x", v), "palette": "palette256", "result": fmt.Sprintf("%06x", tcell.FindColor(tcell.NewHexColor(v), pals[3].colors).Hex())})
	}
	w.R.Scenarios["findcolor"] = map[string]interface{}{"colours_this_shard": len(colors), "palettes": 4, "random_palettes": len(rpals)}
	w.Finish()
}

func checkFind(p *pal, v int32) string {
	c := tcell.NewHexColor(v)
	got := tcell.FindColor(c, p.colors)
	if len(p.colors) == 0 {
		if got != tcell.ColorDefault {
			return fmt.Sprintf("FindColor(%#06x, empty palette) = %#x, want ColorDefault", v, uint64(got))
		}
		return ""
	}
	gi := -1
	for i, pc := range p.colors {
		if pc == got {
			gi = i
			break
		}
	}
	if gi < 0 {
		return fmt.Sprintf("FindColor(%#06x, %s) = %#x which is not a member of the palette", v, p.name, uint64(got))
	}
	lab := refc.ToLab(v)
	dg := refc.DeltaE76(lab, p.lab[gi])
	for i := range p.colors {
		if d := refc.DeltaE76(lab, p.lab[i]); d < dg-tol {
			return fmt.Sprintf("FindColor(%#06x, %s) = %#06x at CIE76 distance %.4f, but palette member %#06x is closer (%.4f)", v, p.name, got.Hex(), dg, p.colors[i].Hex(), d)
		}
	}
	return ""
}
