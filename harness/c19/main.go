//go:build js && wasm

// C19 — the WebAssembly backend renders faithfully and never wedges. The whole explorer runs
// inside the wasm program under Node; JavaScript's drawCell/clearScreen/show/showCursor/
// resize/... are replaced by recording stand-ins installed from Go.
package main

import (
	"fmt"
	"runtime"
	"sort"
	"strings"
	"syscall/js"
	"unicode/utf8"

	"github.com/gdamore/tcell/v2"

	"verif/hc"
	ri "verif/ref/input"
	"verif/ref/shadow"
	"verif/seq"
)

var w *hc.W

// ---------- recording page ----------

type pcell struct {
	s             string
	fg, bg        int
	attrs, us, uc int
	stamp         int
	drawn         bool
}

type page struct {
	w, h    int
	cells   map[[2]int]pcell
	stamp   int
	shows   int
	cursor  [2]int
	clears  int
	resizes [][2]int
	title   string
	beeps   int
}

var pg *page

func install() {
	g := js.Global()
	g.Set("drawCell", js.FuncOf(func(this js.Value, a []js.Value) interface{} {
		pg.cells[[2]int{a[0].Int(), a[1].Int()}] = pcell{a[2].String(), a[3].Int(), a[4].Int(), a[5].Int(), a[6].Int(), a[7].Int(), pg.stamp, true}
		return nil
	}))
	g.Set("clearScreen", js.FuncOf(func(this js.Value, a []js.Value) interface{} {
		pg.clears++
		pg.cells = map[[2]int]pcell{}
		return nil
	}))
	g.Set("show", js.FuncOf(func(this js.Value, a []js.Value) interface{} { pg.shows++; return nil }))
	g.Set("showCursor", js.FuncOf(func(this js.Value, a []js.Value) interface{} { pg.cursor = [2]int{a[0].Int(), a[1].Int()}; return nil }))
	g.Set("setCursorStyle", js.FuncOf(func(this js.Value, a []js.Value) interface{} { return nil }))
	g.Set("resize", js.FuncOf(func(this js.Value, a []js.Value) interface{} {
		pg.resizes = append(pg.resizes, [2]int{a[0].Int(), a[1].Int()})
		pg.w, pg.h = a[0].Int(), a[1].Int()
		return nil
	}))
	g.Set("beep", js.FuncOf(func(this js.Value, a []js.Value) interface{} { pg.beeps++; return nil }))
	g.Set("setTitle", js.FuncOf(func(this js.Value, a []js.Value) interface{} { pg.title = a[0].String(); return nil }))
}

func newScreen(wd, ht int) tcell.Screen {
	pg = &page{w: 80, h: 24, cells: map[[2]int]pcell{}}
	// a fresh page: none of the callbacks of an earlier screen is defined
	for _, n := range []string{"onKeyEvent", "onMouseClick", "onMouseMove", "onFocus", "onPaste"} {
		js.Global().Delete(n)
	}
	if realPage {
		js.Global().Call("__reload")
	}
	s, err := tcell.NewTerminfoScreen()
	if err != nil {
		panic(err)
	}
	if err := s.Init(); err != nil {
		panic(err)
	}
	s.SetSize(wd, ht)
	for s.HasPendingEvent() {
		s.PollEvent()
	}
	return s
}

// ---------- draw histories ----------

var styles = []shadow.StyleD{
	{},
	{Fg: tcell.ColorRed, Bg: tcell.ColorNavy},
	{Fg: tcell.PaletteColor(200), Bg: tcell.ColorWhite, Attrs: tcell.AttrBold | tcell.AttrItalic},
	{Fg: tcell.NewRGBColor(10, 200, 33), Bg: tcell.NewRGBColor(250, 250, 1), UL: 3, ULColor: tcell.ColorMaroon},
	{Fg: tcell.ColorSilver, UL: 1, ULColor: tcell.NewRGBColor(1, 2, 3), Attrs: tcell.AttrReverse},
}

// the xterm-like values for the 16 basic colours (xterm's default colour resources)
var basic16 = [16]int{0x000000, 0xcd0000, 0x00cd00, 0xcdcd00, 0x0000ee, 0xcd00cd, 0x00cdcd, 0xe5e5e5, 0x7f7f7f, 0xff0000, 0x00ff00, 0xffff00, 0x5c5cff, 0xff00ff, 0x00ffff, 0xffffff}

// want24 gives the 24-bit value a colour must be drawn with; ok=false when the statement
// does not fix it (default / reset colours: the page's own default).
func want24(c tcell.Color) (int, bool) {
	if !c.Valid() {
		return 0, false
	}
	if c.IsRGB() {
		return int(c.Hex()), true
	}
	idx := int(c &^ tcell.ColorValid)
	if idx < 16 {
		return basic16[idx], true
	}
	if h := c.Hex(); h >= 0 {
		return int(h), true
	}
	return 0, false
}

type op struct {
	kind string
	x, y int
	r    rune
	comb []rune
	st   int
}

func (o op) String() string {
	switch o.kind {
	case "set":
		return fmt.Sprintf("SetContent(%d,%d,%q,%q,style%d)", o.x, o.y, o.r, string(o.comb), o.st)
	case "fill":
		return fmt.Sprintf("Fill(%q,style%d)", o.r, o.st)
	case "setstyle":
		return fmt.Sprintf("SetStyle(style%d)", o.st)
	}
	return o.kind + "()"
}

type dsys struct {
	s     tcell.Screen
	sh    *shadow.Screen
	ops   []op
	stale bool
	last  int
	shown bool
	// which cells were the covered column of a displayed wide rune at the previous Show
	cov        []bool
	covW, covH int
}

func (d *dsys) Close() { d.s.Fini() }
func (d *dsys) Key() string {
	var sb strings.Builder
	sb.WriteString(tcell.VerifCellDump(tcell.VerifWasmCells(d.s)))
	keys := make([][2]int, 0, len(pg.cells))
	for k := range pg.cells {
		keys = append(keys, k)
	}
	sort.Slice(keys, func(i, j int) bool {
		return keys[i][1] < keys[j][1] || (keys[i][1] == keys[j][1] && keys[i][0] < keys[j][0])
	})
	for _, k := range keys {
		c := pg.cells[k]
		fmt.Fprintf(&sb, "%v:%q,%d,%d,%d,%d,%d;", k, c.s, c.fg, c.bg, c.attrs, c.us, c.uc)
	}
	for i := range d.sh.Cells {
		c := &d.sh.Cells[i]
		fmt.Fprintf(&sb, "%d%v%v%v;", c.R, c.Comb, c.S, c.ChangedSince)
	}
	fmt.Fprintf(&sb, "%v%v%v%d", d.sh.Default, d.stale, d.cov, d.covW)
	return sb.String()
}

func (d *dsys) Apply(i int) (sig, desc string) {
	o := d.ops[i]
	defer func() {
		if r := recover(); r != nil {
			sig, desc = "wasm-panic:"+o.kind, fmt.Sprintf("%v panicked: %v", o, r)
		}
	}()
	switch o.kind {
	case "set":
		d.s.SetContent(o.x, o.y, o.r, o.comb, styles[o.st].Style())
		d.sh.SetContent(o.x, o.y, o.r, o.comb, styles[o.st])
	case "fill":
		d.s.Fill(o.r, styles[o.st].Style())
		d.sh.Fill(o.r, styles[o.st])
	case "clear":
		d.s.Clear()
		d.sh.Fill(' ', shadow.StyleD{})
	case "setstyle":
		d.s.SetStyle(styles[o.st].Style())
		if d.sh.Default != styles[o.st] {
			d.sh.Default = styles[o.st]
			d.stale = true
			for k := range d.sh.Cells {
				if d.sh.Cells[k].S.IsZero() {
					d.sh.Cells[k].ChangedSince = true
				}
			}
		}
	case "suspendresume":
		// Suspend clears the page; after Resume the next Show has to bring back the logical
		// contents (every cell counts as changed: the page holds none of them any more)
		_ = d.s.Suspend()
		_ = d.s.Resume()
		d.shown = false
		for k := range d.sh.Cells {
			d.sh.Cells[k].ChangedSince = true
		}
	case "show", "sync":
		pg.stamp++
		shows := pg.shows
		full := o.kind == "sync" || !d.shown // the first Show paints every cell
		d.shown = true
		if o.kind == "sync" {
			d.s.Sync()
			d.stale = false
		} else {
			d.s.Show()
		}
		if pg.shows != shows+1 {
			return "wasm-no-show", fmt.Sprintf("%v did not end with exactly one show() call into JavaScript (%d)", o, pg.shows-shows)
		}
		if m := d.compare(o, full); m != "" {
			return "wasm-" + strings.Fields(m)[0], fmt.Sprintf("after %v: %s", o, m)
		}
		if m := pageCompare(d.sh.W, d.sh.H, func(x, y int) bool { return false }); m != "" {
			return "wasm-" + strings.Fields(m)[0], fmt.Sprintf("after %v: %s", o, m)
		}
		for k := range d.sh.Cells {
			d.sh.Cells[k].ChangedSince = false
		}
		d.recordCovered()
	}
	return "", ""
}

// recordCovered remembers which cells were the covered column of a displayed wide rune at this
// Show (the layout walk of compare).
func (d *dsys) recordCovered() {
	W, H := d.sh.W, d.sh.H
	d.covW, d.covH = W, H
	d.cov = make([]bool, W*H)
	for y := 0; y < H; y++ {
		covered := false
		for x := 0; x < W; x++ {
			if covered {
				covered = false
				d.cov[y*W+x] = true
				continue
			}
			if _, wd := shadow.Shown(d.sh.At(x, y).R); wd == 2 && x != W-1 {
				covered = true
			}
		}
	}
}

// wasCovered: the cell was a covered column at the previous Show of a screen of this size.
func (d *dsys) wasCovered(x, y int) bool {
	if d.covW != d.sh.W || d.covH != d.sh.H || d.cov == nil {
		return false
	}
	return d.cov[y*d.covW+x]
}

func (d *dsys) compare(o op, full bool) string {
	W, H := d.sh.W, d.sh.H
	for y := 0; y < H; y++ {
		covered := false
		for x := 0; x < W; x++ {
			sc := d.sh.At(x, y)
			pc := pg.cells[[2]int{x, y}]
			if covered {
				covered = false
				// second column of a wide rune: what the page holds there is not fixed, but it
				// must not be painted in a Show in which neither it nor the wide rune changed
				// (a cell that was not covered at the previous Show - a change further left can
				// uncover the wide rune to its left through a chain of overlaps - has to be
				// blanked, which is a draw)
				if !full && pc.stamp == pg.stamp && pc.drawn && !sc.ChangedSince && !d.sh.At(x-1, y).ChangedSince && d.wasCovered(x, y) {
					return fmt.Sprintf("overdraw: cell (%d,%d), covered by the wide rune to its left, was drawn although nothing changed since the previous Show", x, y)
				}
				// the covered column has no content of its own: whatever was there before the
				// wide rune must be gone from the page (the grid holds one entry per column, so
				// a stale character there is displayed behind the wide glyph)
				if !d.stale && pc.drawn && pc.s != "" {
					return fmt.Sprintf("covered: cell (%d,%d) is covered by the wide rune %q to its left, but the page still holds %q there", x, y, string(d.sh.At(x-1, y).R), pc.s)
				}
				continue
			}
			r, wd := shadow.Shown(sc.R)
			var comb []rune
			for _, c := range sc.Comb {
				if !(c < ' ' || (c >= 0x7f && c < 0xa0) || c == 0x2028 || c == 0x2029 || !utf8.ValidRune(c) || (c >= 0xfdd0 && c <= 0xfdef) || c&0xfffe == 0xfffe) { // control characters, line separators and non-characters are no combining marks: not shown
					comb = append(comb, c)
				}
			}
			if wd == 2 {
				covered = true
				if x == W-1 {
					// a wide rune in the last column does not fit: a blank is shown instead
					// (as the terminal and the simulation screen do); a page row holds W cells
					r, wd, covered = ' ', 1, false
					comb = nil
				}
			}
			// touched only if changed
			if !full && pc.stamp == pg.stamp && pc.drawn && !sc.ChangedSince {
				prevWide := x > 0 && func() bool { _, pw := shadow.Shown(d.sh.At(x-1, y).R); return pw == 2 }()
				// a change up to two columns to the left may have covered or uncovered this cell
				// (a wide rune stored over the first half of another one uncovers that one's
				// second column)
				near := (x > 0 && d.sh.At(x-1, y).ChangedSince) || (x > 1 && d.sh.At(x-2, y).ChangedSince)
				if !prevWide && !near {
					return fmt.Sprintf("overdraw: cell (%d,%d) was drawn again although it did not change since the previous Show", x, y)
				}
			}
			if d.stale {
				continue
			}
			st := sc.S
			if st.IsZero() {
				st = d.sh.Default
			}
			want := string(append([]rune{r}, comb...))
			if !pc.drawn {
				if want == " " && sc.S.IsZero() && pg.clears > 0 {
					continue // a page cleared with the screen's default style shows exactly that
				}
				return fmt.Sprintf("missing: cell (%d,%d) holds %q but was never drawn on the page", x, y, want)
			}
			if pc.s != want {
				return fmt.Sprintf("text: cell (%d,%d) shows %q, want %q", x, y, pc.s, want)
			}
			if v, ok := want24(st.Fg); ok && pc.fg != v {
				return fmt.Sprintf("foreground: cell (%d,%d) drawn with #%06x, want #%06x", x, y, pc.fg, v)
			}
			if v, ok := want24(st.Bg); ok && pc.bg != v {
				return fmt.Sprintf("background: cell (%d,%d) drawn with #%06x, want #%06x", x, y, pc.bg, v)
			}
			wattr := int(st.Attrs)
			if st.UL != 0 {
				wattr |= int(tcell.AttrUnderline)
			}
			if pc.attrs != wattr {
				return fmt.Sprintf("attributes: cell (%d,%d) drawn with attribute bits %#x, want %#x", x, y, pc.attrs, wattr)
			}
			if pc.us != st.UL {
				return fmt.Sprintf("underline-style: cell (%d,%d) drawn with underline style %d, want %d", x, y, pc.us, st.UL)
			}
			if v, ok := want24(st.ULColor); ok && st.UL != 0 && pc.uc != v {
				return fmt.Sprintf("underline-colour: cell (%d,%d) drawn with underline colour #%06x, want #%06x", x, y, pc.uc, v)
			}
		}
	}
	return ""
}

func draws() {
	show, sync := op{kind: "show"}, op{kind: "sync"}
	scen := map[string][]op{}
	{
		var ops []op
		for x := 0; x < 4; x++ {
			ops = append(ops, op{kind: "set", x: x, r: 'a'}, op{kind: "set", x: x, r: '世', st: 1})
		}
		ops = append(ops, op{kind: "set", x: 2, r: 'e', comb: []rune{0x0301}}, op{kind: "set", x: 1, r: 'b', comb: []rune{'\n', 0x0301, 0x9b, 0xd800, 0x2028, 0xfffe}}, op{kind: "set", x: 0, r: 0x1b}, op{kind: "fill", r: 'b', st: 2}, op{kind: "clear"}, show, sync, op{kind: "suspendresume"})
		scen["W-wide-4x1"] = ops
	}
	{
		var ops []op
		for si := range styles {
			ops = append(ops, op{kind: "set", x: 0, y: 0, r: 'a', st: si}, op{kind: "set", x: 1, y: 1, r: 'b', st: si})
		}
		ops = append(ops, op{kind: "setstyle", st: 1}, op{kind: "setstyle", st: 0}, op{kind: "fill", r: ' ', st: 3}, show, sync)
		scen["S-styles-2x2"] = ops
	}
	for name, ops := range scen {
		name, ops := name, ops
		wd, ht := 4, 1
		if name[0] == 'S' {
			wd, ht = 2, 2
		}
		d := 4
		if hc.Thorough() {
			d = 5
		}
		cfg := &seq.Config{Name: name, NOps: len(ops), Depth: d, OpName: func(i int) string { return ops[i].String() },
			New:  func() seq.Sys { return &dsys{s: newScreen(wd, ht), sh: shadow.New(wd, ht), ops: ops} },
			Mine: hc.Mine, Shard0: *hc.Shard == 0, ShardDepth: 2, Stop: w.Expired, MaxViolationSigs: 8,
			OnViolation: func(sig, desc string, hist []int) {
				var names []string
				for _, o := range hist {
					names = append(names, ops[o].String())
				}
				w.Violation(sig, name+": "+desc+"\n history: "+strings.Join(names, "; "), map[string]interface{}{"scenario": name, "ops": hist})
			}}
		st := seq.Explore(cfg)
		w.R.States += st.States
		w.R.Transitions += st.Transitions
		w.R.Executions += st.Transitions
		w.R.Scenarios[name] = st.Summary()
		if len(st.SampleHist) > 0 {
			w.Sample(map[string]interface{}{"scenario": name, "history": st.SampleHist[0]})
		}
	}
}

// ---------- input callbacks ----------

func poll(s tcell.Screen) []ri.Ev {
	var out []ri.Ev
	for s.HasPendingEvent() {
		e := ri.Conv(s.PollEvent())
		if e.Kind == "key" && e.Key != tcell.KeyRune {
			e.Rune = 0
		}
		out = append(out, e)
	}
	return out
}

func modsOf(i int) (sh, alt, ctrl, meta bool, m tcell.ModMask) {
	sh, alt, ctrl, meta = i&1 != 0, i&2 != 0, i&4 != 0, i&8 != 0
	if sh {
		m |= tcell.ModShift
	}
	if alt {
		m |= tcell.ModAlt
	}
	if ctrl {
		m |= tcell.ModCtrl
	}
	if meta {
		m |= tcell.ModMeta
	}
	return
}

func inputs() {
	if *hc.Shard != 0 {
		return
	}
	s := newScreen(10, 5)
	defer s.Fini()
	g := js.Global()
	names := make([]string, 0, len(tcell.WebKeyNames))
	for n := range tcell.WebKeyNames {
		names = append(names, n)
	}
	sort.Strings(names)
	for _, n := range names {
		if strings.HasPrefix(n, "Ctrl-") {
			continue // internal names for control keys; reached through the letter with Ctrl held
		}
		for mi := 0; mi < 16; mi++ {
			sh, alt, ctrl, meta, m := modsOf(mi)
			w.R.Evaluations++
			w.AddDistinct(1)
			g.Call("onKeyEvent", n, sh, alt, ctrl, meta)
			got := poll(s)
			want := []ri.Ev{{Kind: "key", Key: tcell.WebKeyNames[n], Mod: m}}
			if !ri.EqEvs(got, want) {
				w.Violation("wasm-key:"+n, fmt.Sprintf("key %q with modifiers %04b delivered %v, want %v", n, mi, got, want), nil)
			}
		}
	}
	// printable keys, Ctrl-letter keys, modifier-only keys
	for _, k := range []string{"a", "Z", "é", "世", " ", "~"} {
		for mi := 0; mi < 16; mi++ {
			sh, alt, ctrl, meta, m := modsOf(mi)
			w.R.Evaluations++
			g.Call("onKeyEvent", k, sh, alt, ctrl, meta)
			got := poll(s)
			r := []rune(k)[0]
			want := []ri.Ev{{Kind: "key", Key: tcell.KeyRune, Rune: r, Mod: m}}
			// with Ctrl held - alone or with other modifiers, as a terminal reports Ctrl+Alt+a
			// as ESC ^A - a letter is its control key
			if ctrl && ((r >= 'a' && r <= 'z') || r == ' ') {
				ck := tcell.KeyCtrlA + tcell.Key(r-'a')
				if r == ' ' {
					ck = tcell.KeyCtrlSpace
				}
				want = []ri.Ev{{Kind: "key", Key: ck, Mod: m}}
			}
			if ctrl && r == 'Z' {
				want = []ri.Ev{{Kind: "key", Key: tcell.KeyCtrlZ, Mod: m}}
			}
			if !ri.EqEvs(got, want) {
				w.Violation("wasm-rune-key", fmt.Sprintf("key %q with modifiers %04b delivered %v, want %v", k, mi, got, want), nil)
			}
		}
	}
	// KeyboardEvent.key names as browsers report them (UI Events KeyboardEvent key Values):
	// the ones tcell has a key for must arrive as that key, named keys without an
	// equivalent must not arrive as their first letter
	for name, want := range map[string]tcell.Key{"PageUp": tcell.KeyPgUp, "PageDown": tcell.KeyPgDn, "ArrowUp": tcell.KeyUp, "Home": tcell.KeyHome, "End": tcell.KeyEnd, "Insert": tcell.KeyInsert, "Delete": tcell.KeyDelete, "Escape": tcell.KeyEscape, "Enter": tcell.KeyEnter, "Tab": tcell.KeyTab, "Backspace": tcell.KeyBackspace2, "F1": tcell.KeyF1, "F12": tcell.KeyF12} {
		w.R.Evaluations++
		g.Call("onKeyEvent", name, false, false, false, false)
		got := poll(s)
		if len(got) != 1 || got[0].Kind != "key" || (got[0].Key != want && !(want == tcell.KeyBackspace2 && got[0].Key == tcell.KeyBackspace)) {
			w.Violation("wasm-key-name:"+name, fmt.Sprintf("KeyboardEvent.key %q delivered %v, want the key %v", name, got, tcell.KeyNames[want]), nil)
		}
	}
	for _, name := range []string{"CapsLock", "NumLock", "ScrollLock", "Dead", "ContextMenu", "Unidentified", "AudioVolumeUp", "Process"} {
		w.R.Evaluations++
		g.Call("onKeyEvent", name, false, false, false, false)
		for _, e := range poll(s) {
			if e.Kind == "key" && e.Key == tcell.KeyRune {
				w.Violation("wasm-key-name:unknown", fmt.Sprintf("KeyboardEvent.key %q (a named key, not a character) was delivered as the typed character %q", name, e.Rune), nil)
			}
		}
	}
	for _, k := range []string{"Control", "Alt", "Meta", "Shift"} {
		g.Call("onKeyEvent", k, true, false, false, false)
		if got := poll(s); len(got) != 0 {
			w.Violation("wasm-modifier-key", fmt.Sprintf("modifier key %q alone delivered %v", k, got), nil)
		}
	}
	// mouse: button code x modifiers x enabled flag sets x callback
	btn := map[int]tcell.ButtonMask{0: tcell.ButtonNone, 1: tcell.Button1, 2: tcell.Button3, 3: tcell.Button2}
	for flags := 0; flags < 8; flags++ {
		if flags == 0 {
			s.DisableMouse()
		} else {
			s.EnableMouse(tcell.MouseFlags(flags))
		}
		for _, cb := range []string{"onMouseClick", "onMouseMove"} {
			for which := 0; which <= 3; which++ {
				for mi := 0; mi < 8; mi++ {
					sh, alt, ctrl, _, m := modsOf(mi)
					w.R.Evaluations++
					w.AddDistinct(1)
					g.Call(cb, 3, 2, which, sh, alt, ctrl)
					got := poll(s)
					f := tcell.MouseFlags(flags)
					enabled := false
					if cb == "onMouseClick" {
						enabled = f&tcell.MouseButtonEvents != 0
					} else {
						enabled = f&(tcell.MouseDragEvents|tcell.MouseMotionEvents) != 0
					}
					if which == 0 && f&tcell.MouseMotionEvents == 0 {
						enabled = false // no button: plain motion needs the motion flag
					}
					var want []ri.Ev
					if enabled {
						want = []ri.Ev{{Kind: "mouse", X: 3, Y: 2, Buttons: btn[which], Mod: m}}
					}
					if cb == "onMouseClick" && f&tcell.MouseButtonEvents == 0 && f&tcell.MouseDragEvents != 0 {
						// MouseDragEvents is documented as "includes button events": a click may or
						// may not be delivered with drag reporting alone; if it is, it must be right
						if len(got) == 0 {
							continue
						}
						want = []ri.Ev{{Kind: "mouse", X: 3, Y: 2, Buttons: btn[which], Mod: m}}
					}
					if !ri.EqEvs(got, want) {
						w.Violation(fmt.Sprintf("wasm-mouse:%s:flags%d", cb, flags), fmt.Sprintf("%s(button %d, modifiers %03b) with mouse flags %03b delivered %v, want %v", cb, which, mi, flags, got, want), nil)
					}
				}
			}
		}
	}
	// colour sweep: every palette index as foreground and background of one cell
	for i := 0; i < 256; i++ {
		w.R.Evaluations++
		fgc, bgc := tcell.PaletteColor(i), tcell.PaletteColor(255-i)
		s.SetContent(0, 0, rune('A'+i%26), nil, tcell.StyleDefault.Foreground(fgc).Background(bgc))
		s.Show()
		pc := pg.cells[[2]int{0, 0}]
		wf, _ := want24(fgc)
		wb, _ := want24(bgc)
		if pc.fg != wf || pc.bg != wb {
			w.Violation("wasm-palette", fmt.Sprintf("palette colour %d / %d drawn as #%06x on #%06x, want #%06x on #%06x", i, 255-i, pc.fg, pc.bg, wf, wb), nil)
		}
	}
	// 24-bit colours whose value is small (a value, not a palette index): every RGB value
	// 0x000000..0x000120 and the same shifted into the green and red bytes
	for v := 0; v <= 0x120; v++ {
		for _, sh := range []uint{0, 8, 16} {
			c := (v << sh) & 0xffffff
			w.R.Evaluations++
			fgc, bgc := tcell.NewHexColor(int32(c)), tcell.NewHexColor(int32(0xffffff-c))
			s.SetContent(0, 0, rune('a'+v%26), nil, tcell.StyleDefault.Foreground(fgc).Background(bgc).Underline(tcell.UnderlineStyleSolid, fgc))
			s.Show()
			pc := pg.cells[[2]int{0, 0}]
			if pc.fg != c || pc.bg != 0xffffff-c || pc.uc != c {
				w.Violation("wasm-rgb", fmt.Sprintf("RGB colours #%06x on #%06x (underline #%06x) drawn as #%06x on #%06x (underline #%06x)", c, 0xffffff-c, c, pc.fg, pc.bg, pc.uc), nil)
			}
		}
	}
	// paste and focus
	for _, on := range []bool{true, false} {
		s.EnablePaste()
		g.Call("onPaste", on)
		if got := poll(s); !ri.EqEvs(got, []ri.Ev{{Kind: "paste", Flag: on}}) {
			w.Violation("wasm-paste", fmt.Sprintf("onPaste(%v) with paste enabled delivered %v", on, got), nil)
		}
		s.DisablePaste()
		g.Call("onPaste", on)
		if got := poll(s); len(got) != 0 {
			w.Violation("wasm-paste-disabled", fmt.Sprintf("onPaste(%v) with paste disabled delivered %v", on, got), nil)
		}
		s.EnableFocus()
		g.Call("onFocus", on)
		if got := poll(s); !ri.EqEvs(got, []ri.Ev{{Kind: "focus", Flag: on}}) {
			w.Violation("wasm-focus", fmt.Sprintf("onFocus(%v) with focus enabled delivered %v", on, got), nil)
		}
		s.DisableFocus()
		g.Call("onFocus", on)
		if got := poll(s); len(got) != 0 {
			w.Violation("wasm-focus-disabled", fmt.Sprintf("onFocus(%v) with focus disabled delivered %v", on, got), nil)
		}
	}
	w.Sample(map[string]interface{}{"callback": "onKeyEvent(\"ArrowUp\", shift=true, alt=false, ctrl=true, meta=false)", "expect": "KeyUp with Shift+Ctrl"})
}

// ---------- lifecycle: every order of Suspend / Resume / SetSize / Fini ----------

func lifecycle() {
	if *hc.Shard != 0 {
		return
	}
	opsN := []string{"Suspend", "Resume", "SetSize", "Fini"}
	var seqs [][]int
	var rec func(cur []int)
	rec = func(cur []int) {
		if len(cur) > 0 {
			seqs = append(seqs, append([]int(nil), cur...))
		}
		if len(cur) == 4 {
			return
		}
		for i := range opsN {
			rec(append(cur, i))
		}
	}
	rec(nil)
	for _, sq := range seqs {
		w.R.Evaluations++
		w.AddDistinct(1)
		s := newScreen(4, 2)
		var names []string
		for _, o := range sq {
			names = append(names, opsN[o])
		}
		// the sequence runs on this goroutine; a call that returns with the screen lock still
		// held would make the next locking call park for ever (and the Go runtime under Node
		// would report "all goroutines are asleep"), so the lock is probed after every call
		func() {
			defer func() {
				if r := recover(); r != nil {
					w.Violation("wasm-lifecycle-panic", fmt.Sprintf("sequence %v panicked: %v", names, r), nil)
				}
			}()
			for i, o := range sq {
				switch o {
				case 0:
					_ = s.Suspend()
				case 1:
					_ = s.Resume()
				case 2:
					s.SetSize(5+i, 3)
				case 3:
					s.Fini()
				}
				if !tcell.VerifWasmLockFree(s) {
					w.Violation("wasm-wedge:"+opsN[o], fmt.Sprintf("sequence %v: %s (step %d) returned with the screen lock still held, so every later call that takes the lock (Show, Size, Resume ...) blocks for ever", names[:i+1], opsN[o], i+1), map[string]interface{}{"sequence": names[:i+1]})
					return
				}
				for s.HasPendingEvent() {
					s.PollEvent()
				}
			}
			s.Size()
			s.Show()
		}()
	}
	w.R.Scenarios["lifecycle_sequences"] = len(seqs)
}

// ---------- input modes across Suspend / Resume ----------

// modes: every sequence up to length 4 (thorough 5) over EnableMouse (all / buttons only) /
// DisableMouse / EnablePaste / DisablePaste / EnableFocus / Suspend / Resume on a fresh
// screen; after every step at which the screen is running the callbacks are probed: keys are
// delivered, mouse callbacks are honoured exactly for the enabled mouse modes, paste and focus
// exactly when enabled. (While suspended nothing is judged: the statement is silent there.)
func modes() {
	if *hc.Shard != 1%*hc.NShards {
		return
	}
	g := js.Global()
	opsN := []string{"EnableMouse()", "EnableMouse(buttons)", "DisableMouse", "EnablePaste", "DisablePaste", "EnableFocus", "Suspend", "Resume", "DisableFocus"}
	maxLen := 4
	if hc.Thorough() {
		maxLen = 5
	}
	var seqs [][]int
	var rec func(cur []int)
	rec = func(cur []int) {
		if len(cur) > 0 {
			seqs = append(seqs, append([]int(nil), cur...))
		}
		if len(cur) == maxLen {
			return
		}
		for i := range opsN {
			rec(append(cur, i))
		}
	}
	rec(nil)
	for _, sq := range seqs {
		w.R.Evaluations++
		w.AddDistinct(1)
		s := newScreen(4, 2)
		running, paste, focus := true, false, false
		var mouse tcell.MouseFlags
		var names []string
		bad := false
		for _, o := range sq {
			names = append(names, opsN[o])
			switch o {
			case 0:
				s.EnableMouse()
				mouse = tcell.MouseButtonEvents | tcell.MouseDragEvents | tcell.MouseMotionEvents
			case 1:
				s.EnableMouse(tcell.MouseButtonEvents)
				mouse = tcell.MouseButtonEvents
			case 2:
				s.DisableMouse()
				mouse = 0
			case 3:
				s.EnablePaste()
				paste = true
			case 4:
				s.DisablePaste()
				paste = false
			case 5:
				s.EnableFocus()
				focus = true
			case 6:
				_ = s.Suspend()
				running = false
			case 7:
				_ = s.Resume()
				running = true
			case 8:
				s.DisableFocus()
				focus = false
			}
			if !tcell.VerifWasmLockFree(s) {
				w.Violation("wasm-wedge:"+opsN[o], fmt.Sprintf("sequence %v: the call returned with the screen lock still held", names), nil)
				bad = true
				break
			}
			poll(s)
			type probe struct {
				name string
				call func()
				want []ri.Ev
			}
			var wantClick, wantMove, wantPaste, wantFocus []ri.Ev
			if mouse&tcell.MouseButtonEvents != 0 {
				wantClick = []ri.Ev{{Kind: "mouse", X: 1, Y: 1, Buttons: tcell.Button1}}
			}
			if mouse&tcell.MouseMotionEvents != 0 {
				wantMove = []ri.Ev{{Kind: "mouse", X: 2, Y: 1, Buttons: tcell.ButtonNone}}
			}
			if paste {
				wantPaste = []ri.Ev{{Kind: "paste", Flag: true}}
			}
			if focus {
				wantFocus = []ri.Ev{{Kind: "focus", Flag: true}}
			}
			wantKey := []ri.Ev{{Kind: "key", Key: tcell.KeyRune, Rune: 'k'}}
			if !running {
				// "Suspend simply pauses all input and output": nothing the page reports while
				// the screen is suspended becomes an event, whatever was enabled before or since
				wantKey, wantClick, wantMove, wantPaste, wantFocus = nil, nil, nil, nil, nil
			}
			call := func(name string, args ...interface{}) {
				// the page script (webfiles/tcell.js) calls all five unconditionally: one the
				// screen has not installed throws in its listener and takes the input with it
				if g.Get(name).Type() != js.TypeFunction {
					w.Violation("wasm-callback-missing:"+name, fmt.Sprintf("after %v the page script's callback %s is not a function: its listener throws a ReferenceError and what it was about to deliver is lost", names, name), map[string]interface{}{"sequence": names})
					bad = true
					return
				}
				g.Call(name, args...)
			}
			state := "running"
			if !running {
				state = "suspended"
			}
			for _, pr := range []probe{
				{"onKeyEvent(k)", func() { call("onKeyEvent", "k", false, false, false, false) }, wantKey},
				{"onMouseClick(button 1)", func() { call("onMouseClick", 1, 1, 1, false, false, false) }, wantClick},
				{"onMouseMove(no button)", func() { call("onMouseMove", 2, 1, 0, false, false, false) }, wantMove},
				{"onPaste(true)", func() { call("onPaste", true) }, wantPaste},
				{"onFocus(true)", func() { call("onFocus", true) }, wantFocus},
			} {
				pr.call()
				if got := poll(s); !ri.EqEvs(got, pr.want) {
					w.Violation("wasm-modes:"+pr.name, fmt.Sprintf("after %v (%s, mouse flags %03b, paste %v, focus %v): %s delivered %v, want %v", names, state, mouse, paste, focus, pr.name, got, pr.want), map[string]interface{}{"sequence": names})
					bad = true
				}
			}
			if bad {
				break
			}
		}
		s.Fini()
	}
	w.R.Scenarios["mode_sequences"] = len(seqs)
}

// ---------- calls that have to wait for room in the event queue ----------

// fullQueue: the event queue holds its 10 events; SetSize (whose resize event has to wait for
// room) runs on a second goroutine; while it waits, every call that takes the screen lock must
// still return - a waiting call must not hold the lock. The JavaScript side is a pure
// JavaScript stub here, so that no Go callback is entered from the second goroutine.
func fullQueue() {
	if *hc.Shard != 2%*hc.NShards {
		return
	}
	g := js.Global()
	saved := g.Get("resize")
	g.Call("eval", "globalThis.resize = function(w, h) {}")
	defer g.Set("resize", saved)
	for _, pre := range []int{9, 10} {
		w.R.Evaluations++
		w.AddDistinct(1)
		s := newScreen(4, 2)
		for i := 0; i < pre; i++ {
			if err := s.PostEvent(tcell.NewEventInterrupt(i)); err != nil {
				w.Violation("wasm-fullqueue-setup", fmt.Sprintf("PostEvent %d of %d failed: %v", i, pre, err), nil)
			}
		}
		done := false
		go func() {
			s.SetSize(7, 3)
			s.SetSize(8, 3) // with 9 events queued the second one has to wait
			done = true
		}()
		for i := 0; i < 50 && !done; i++ {
			runtime.Gosched()
		}
		if !tcell.VerifWasmLockFree(s) {
			w.Violation("wasm-wedge:SetSize-waiting", fmt.Sprintf("with %d undelivered events a SetSize on another goroutine is waiting for room in the event queue while holding the screen lock: every call that takes the lock (Show, Size, Suspend ...) now blocks until the application polls, which an event loop blocked in Show never does", pre), map[string]interface{}{"queued": pre})
		} else {
			s.Size()
			s.Show()
		}
		// drain: the waiting call must complete, and nothing that was waiting for room is lost
		var sizes [][2]int
		drain := func() {
			for s.HasPendingEvent() {
				if er, ok := s.PollEvent().(*tcell.EventResize); ok {
					cw, ch := er.Size()
					sizes = append(sizes, [2]int{cw, ch})
				}
			}
		}
		for i := 0; i < 40 && !done; i++ {
			drain()
			runtime.Gosched()
		}
		if !done {
			w.Violation("wasm-setsize-never-returns", fmt.Sprintf("SetSize did not return although the event queue was drained (%d events were queued)", pre), nil)
		} else {
			drain()
			if fmt.Sprint(sizes) != "[[7 3] [8 3]]" {
				w.Violation("wasm-event-lost-on-full-queue", fmt.Sprintf("with %d undelivered events queued, SetSize(7,3) and SetSize(8,3) ran on another goroutine while the application was not polling; afterwards the resize events delivered are %v, want [[7 3] [8 3]]: an event that found the queue full was dropped", pre, sizes), map[string]interface{}{"queued": pre})
			}
		}
		s.Fini()
	}
}

// uncovered: a wide rune stored over the first half of another one uncovers that one's second
// column: the page must show that column's own (blank) content again, on a row of w cells.
func uncovered() {
	if *hc.Shard != 0 {
		return
	}
	for _, hist := range [][][2]int{{{5, '中'}, {-1, 0}, {4, '世'}, {-1, 0}}, {{2, '中'}, {-1, 0}, {1, '世'}, {-1, 0}}, {{3, '中'}, {2, '世'}, {-1, 0}, {1, '中'}, {-1, 0}, {0, 'a'}, {-1, 0}}} {
		w.R.Evaluations++
		w.AddDistinct(1)
		s := newScreen(8, 1)
		s.Show()
		logical := []rune("        ")
		cover := make([]bool, 8)
		var names []string
		for _, st := range hist {
			if st[0] < 0 {
				s.Show()
				names = append(names, "Show")
				continue
			}
			s.SetContent(st[0], 0, rune(st[1]), nil, tcell.StyleDefault)
			names = append(names, fmt.Sprintf("SetContent(%d,0,%q)", st[0], rune(st[1])))
			logical[st[0]] = rune(st[1])
		}
		// what is visible: walk the row the way every screen does
		for x := 0; x < 8; x++ {
			cover[x] = false
		}
		for x := 0; x < 8; x++ {
			if _, wd := shadow.Shown(logical[x]); wd == 2 && x+1 < 8 {
				cover[x+1] = true
				x++
			}
		}
		for x := 0; x < 8; x++ {
			pc := pg.cells[[2]int{x, 0}]
			want := string(logical[x])
			if cover[x] {
				want = ""
			}
			got := pc.s
			if !pc.drawn {
				got = " "
			}
			if got != want {
				w.Violation("wasm-uncovered", fmt.Sprintf("8x1 screen, %v: the page holds %q in column %d, want %q (row of 8 cells: what a wide rune covers is empty, what it no longer covers shows its own content)", names, got, x, want), map[string]interface{}{"history": names})
				break
			}
		}
		s.Fini()
	}
}

func main() {
	w = hc.Start("C19")
	w.R.Rule = "the package is compiled for GOOS=js GOARCH=wasm from the current tree (the check's build step; a compile error is reported with the compiler output); inside the wasm program under Node, with recording stand-ins for tcell.js: BFS (depth 4, thorough 5) over draw histories (wide-rune/combining/control alphabet 4x1, five-style alphabet 2x2 incl. basic, 256-palette and RGB colours, attributes, underline style/colour) comparing the page grid rebuilt from drawCell calls with the shadow model after every Show/Sync and requiring drawn cells to be changed cells; every name of WebKeyNames and six printable keys x 16 modifier combinations, modifier-only keys, both mouse callbacks x 4 button codes x 8 modifier sets x 8 enabled-flag sets, paste and focus callbacks enabled and disabled; all 340 orders of Suspend/Resume/SetSize/Fini up to length 4, each on a fresh screen, a call that returns with the screen lock held being detected by probing the lock (no wall clock); all sequences up to length 4 (5) over EnableMouse(all|buttons)/DisableMouse/EnablePaste/DisablePaste/EnableFocus/Suspend/Resume with key, click, motion, paste and focus callbacks probed after every step (a suspended screen must deliver nothing); with the page script running: after every Show/Sync of the draw histories the grid tcell.js has built (rows, columns, text, colours swapped under reverse, attribute and underline classes, underline colour, blink wrapper) equals what the draw calls since the last clear say, keys/paste (also characters outside the basic plane)/click/mousemove/focus/blur delivered as DOM events to its listeners become the right events, and all sequences up to length 4 of ShowCursor/HideCursor/SetSize/SetContent/Show throw nothing and leave the cursor class on exactly the requested on-screen cell. distinct_nontrivial = input cases + lifecycle sequences + draw states"
	w.R.Assumptions = []string{"webfiles/tcell.js of the tree under test is executed under Node on a stand-in document object model (elements, classList, style, listeners; no layout engine, no CSS): recording functions sit in front of its drawCell/show/... and pass every call on; if the script cannot be read the recorders alone are the page (noted in the evidence)", "default/reset colours are not fixed by the statement for this backend and are not compared; a wide rune in the last column is shown as a blank (as on the other screens), the column a wide rune covers holds no text of its own", "with Ctrl held (alone or with other modifiers) a letter is its control key, as a terminal reports it"}
	install()
	if ok, why := loadPage(); ok {
		realPage = true
		w.R.Scenarios["page_script_executed"] = 1
	} else {
		w.Note("webfiles/tcell.js is not executed (%s): the recording stand-ins are the page", why)
	}
	if *hc.Replay != "" {
		fmt.Println("replay: see the history in the replay file; re-run ./vc C19")
		return
	}
	draws()
	inputs()
	pageInputs()
	pageCursorSequences()
	pageClearColours()
	lifecycle()
	modes()
	fullQueue()
	uncovered()
	for i := int64(0); i < w.R.States; i++ {
		w.Distinct(uint64(*hc.Shard)<<40 | uint64(i))
	}
	w.Finish()
}
