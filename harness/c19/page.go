//go:build js && wasm

package main

import (
	"encoding/json"
	"fmt"
	"os"
	"path/filepath"
	"sort"
	"strings"
	"syscall/js"

	"github.com/gdamore/tcell/v2"

	"verif/hc"
	ri "verif/ref/input"
)

// The page itself: webfiles/tcell.js of the tree under test runs under Node on top of a small
// document object model (elements with children, classList, style, listeners), so that the
// "page grid" is what tcell.js really builds from the draw calls, and input reaches the Go
// callbacks through tcell.js' own keydown / click / mousemove / paste / focus listeners. The
// recording stand-ins stay in front of it (each call is recorded, then passed on).
const fakeDOM = `(function(){
class ClassList { constructor(){this.s=new Set()} add(c){this.s.add(c)} remove(c){this.s.delete(c)} contains(c){return this.s.has(c)} toString(){return [...this.s].sort().join(" ")} }
class Style { setProperty(k,v){ this[k]=v } }
class TextNode { constructor(t){this.parent=null; this.data=String(t)} get textContent(){return this.data} }
class Element {
  constructor(tag){this.parent=null; this.tag=tag; this.children=[]; this.style=new Style(); this.classList=new ClassList(); this.listeners={}; this.clientWidth=0; this.clientHeight=0}
  appendChild(c){ if(c.parent){ const i=c.parent.children.indexOf(c); if(i>=0) c.parent.children.splice(i,1) } c.parent=this; this.children.push(c); return c }
  set innerHTML(v){ for(const c of this.children) c.parent=null; this.children=[] }
  get innerHTML(){ return "" }
  get textContent(){ return this.children.map(c=>c.textContent).join("") }
  addEventListener(t,f){ (this.listeners[t]=this.listeners[t]||[]).push(f) }
  dispatch(t,e){ for(const f of (this.listeners[t]||[])) f(e) }
}
const term=new Element("pre"); term.clientWidth=800; term.clientHeight=480;
globalThis.document={ title:"", listeners:{}, getElementById(id){return id==="terminal"?term:null}, createElement(t){return new Element(t)}, createTextNode(t){return new TextNode(t)},
  addEventListener(t,f){(this.listeners[t]=this.listeners[t]||[]).push(f)}, dispatch(t,e){for(const f of (this.listeners[t]||[])) f(e)} };
globalThis.__term=term;
globalThis.Audio=class{ constructor(){this.currentTime=0} play(){} };
globalThis.fetch=()=>new Promise(()=>{});
WebAssembly.instantiateStreaming=()=>new Promise(()=>{});
function info(n){
  const o={t:n.textContent, fg:"", bg:"", uc:"", cls:"", blink:false, el:false};
  if(n instanceof Element){ o.el=true; o.fg=n.style.color||""; o.bg=n.style.backgroundColor||""; o.uc=n.style.textDecorationColor||""; o.cls=n.classList.toString();
    o.blink=n.children.length==1 && (n.children[0] instanceof Element) && n.children[0].classList.contains("blink");
    // a cell wrapped only to carry the cursor class
    if(!o.blink && n.children.length==1 && (n.children[0] instanceof Element)){ const c=info(n.children[0]); c.cls=(c.cls+" "+o.cls).trim(); return c } }
  return o }
globalThis.__grid=()=>JSON.stringify(term.children.map(row=>row.children.slice(0,-1).map(info)));
globalThis.__rowEnds=()=>JSON.stringify(term.children.map(row=>row.children.length? row.children[row.children.length-1].textContent : ""));
})()`

const wrapJS = `(function(){
for (const n of ["drawCell","clearScreen","show","showCursor","setCursorStyle","resize","beep","setTitle"]) {
  const real=globalThis[n], rec=globalThis["__rec_"+n];
  globalThis["__real_"+n]=real;
  globalThis[n]=function(...a){ rec(...a); return real.apply(this,a) };
}
// a fresh page, as after a reload: 80x24 blanks, no cursor
globalThis.__reload=function(){ globalThis.cx=-1; globalThis.cy=-1; globalThis.cursorClass="cursor-blinking-block"; globalThis.cursorColor=""; __real_resize(80,24); __term.style=new (__term.style.constructor)(); __real_show() };
})()`

var realPage bool

// loadPage runs tcell.js of the tree under test; false (with the reason) if it cannot.
func loadPage() (bool, string) {
	dir := os.Getenv("VERIF_REPO_DIR")
	if dir == "" {
		dir = "/repo"
	}
	src, err := os.ReadFile(filepath.Join(dir, "webfiles", "tcell.js"))
	if err != nil {
		return false, err.Error()
	}
	g := js.Global()
	var reason string
	ok := func() (ok bool) {
		defer func() {
			if r := recover(); r != nil {
				reason = fmt.Sprint(r)
				ok = false
			}
		}()
		for _, n := range []string{"drawCell", "clearScreen", "show", "showCursor", "setCursorStyle", "resize", "beep", "setTitle"} {
			g.Set("__rec_"+n, g.Get(n))
		}
		g.Call("eval", fakeDOM)
		g.Call("eval", string(src))
		g.Call("eval", wrapJS)
		return true
	}()
	return ok, reason
}

type domCell struct {
	T     string `json:"t"`
	Fg    string `json:"fg"`
	Bg    string `json:"bg"`
	Uc    string `json:"uc"`
	Cls   string `json:"cls"`
	Blink bool   `json:"blink"`
	El    bool   `json:"el"`
}

func domGrid() [][]domCell {
	var g [][]domCell
	_ = json.Unmarshal([]byte(js.Global().Call("__grid").String()), &g)
	return g
}

func hex(n int) string { return fmt.Sprintf("#%06x", n) }

// pageCompare: after a Show, the grid tcell.js has built equals what the draw calls since the
// last clear say: one entry per column and row, a never-drawn cell a blank without styling, a
// drawn one its text with the colours (swapped under reverse video), attribute classes,
// underline class and colour of the call. Columns covered by a wide rune are not compared.
func pageCompare(W, H int, covered func(x, y int) bool) string {
	if !realPage {
		return ""
	}
	g := domGrid()
	if len(g) != H {
		return fmt.Sprintf("page-rows: the page has %d rows, the screen %d", len(g), H)
	}
	var ends []string
	_ = json.Unmarshal([]byte(js.Global().Call("__rowEnds").String()), &ends)
	for y := 0; y < H; y++ {
		if len(g[y]) != W {
			return fmt.Sprintf("page-columns: row %d of the page has %d cells, the screen is %d wide", y, len(g[y]), W)
		}
		if ends[y] != "\n" {
			return fmt.Sprintf("page-row-end: row %d of the page does not end with a line break", y)
		}
		for x := 0; x < W; x++ {
			if covered(x, y) {
				continue
			}
			c := g[y][x]
			pc := pg.cells[[2]int{x, y}]
			var cls []string
			for _, k := range strings.Fields(c.Cls) {
				if !strings.HasPrefix(k, "cursor-") {
					cls = append(cls, k)
				}
			}
			sort.Strings(cls)
			got := fmt.Sprintf("text %q fg %s bg %s classes %v underline-colour %s blink %v", c.T, c.Fg, c.Bg, cls, c.Uc, c.Blink)
			if !pc.drawn {
				if c.T != " " || c.Fg != "" || c.Bg != "" || len(cls) != 0 || c.Blink {
					return fmt.Sprintf("page-stale: cell (%d,%d) has not been drawn since the page was cleared, but the page shows %s", x, y, got)
				}
				continue
			}
			fg, bg := pc.fg, pc.bg
			if pc.attrs&(1<<2) != 0 {
				fg, bg = bg, fg
			}
			var wcls []string
			for bit, name := range map[int]string{0: "bold", 4: "dim", 5: "italic", 6: "strikethrough"} {
				if pc.attrs&(1<<uint(bit)) != 0 {
					wcls = append(wcls, name)
				}
			}
			if pc.us != 0 {
				wcls = append(wcls, map[int]string{1: "underline", 2: "double_underline", 3: "curly_underline", 4: "dotted_underline", 5: "dashed_underline"}[pc.us])
			}
			sort.Strings(wcls)
			wfg, wbg, wuc := "", "", ""
			if fg != -1 {
				wfg = hex(fg)
			}
			if bg != -1 {
				wbg = hex(bg)
			}
			if pc.us != 0 && pc.uc != -1 {
				wuc = hex(pc.uc)
			}
			want := fmt.Sprintf("text %q fg %s bg %s classes %v underline-colour %s blink %v", pc.s, wfg, wbg, wcls, wuc, pc.attrs&(1<<1) != 0)
			if got != want {
				return fmt.Sprintf("page-cell: cell (%d,%d) of the page shows %s; the last draw call for it says %s", x, y, got, want)
			}
		}
	}
	return ""
}

// pageCursor: the classes of the cell the cursor is on / of all other cells.
func pageCursor(W, H int) (at [][2]int) {
	g := domGrid()
	for y := range g {
		for x := range g[y] {
			for _, k := range strings.Fields(g[y][x].Cls) {
				if strings.HasPrefix(k, "cursor-") {
					at = append(at, [2]int{x, y})
				}
			}
		}
	}
	return
}

// pageInputs: input as the browser delivers it - DOM events handed to tcell.js' own
// listeners - becomes the corresponding events.
func pageInputs() {
	if !realPage || *hc.Shard != 0 {
		return
	}
	g := js.Global()
	s := newScreen(10, 5)
	defer s.Fini()
	ev := func(m map[string]interface{}) js.Value {
		o := g.Get("Object").New()
		for k, v := range m {
			o.Set(k, v)
		}
		return o
	}
	doc, term := g.Get("document"), g.Get("__term")
	key := func(k string, sh, alt, ctrl, meta bool) {
		doc.Call("dispatch", "keydown", ev(map[string]interface{}{"key": k, "shiftKey": sh, "altKey": alt, "ctrlKey": ctrl, "metaKey": meta}))
	}
	rk := func(r rune, m tcell.ModMask) ri.Ev { return ri.Ev{Kind: "key", Key: tcell.KeyRune, Rune: r, Mod: m} }
	check := func(what string, want []ri.Ev) {
		w.R.Evaluations++
		w.AddDistinct(1)
		got := poll(s)
		for i := range got {
			if got[i].Kind == "key" && got[i].Key != tcell.KeyRune {
				got[i].Rune = 0
			}
		}
		if !ri.EqEvs(got, want) {
			sig := what
			if i := strings.IndexByte(sig, ' '); i > 0 {
				sig = sig[:i]
			}
			w.Violation("wasm-page-input:"+sig, fmt.Sprintf("%s: delivered %v, want %v", what, got, want), nil)
		}
	}
	// keys
	key("a", false, false, false, false)
	check("keydown a", []ri.Ev{rk('a', 0)})
	key("世", true, true, false, false)
	check("keydown 世 with Shift+Alt", []ri.Ev{rk('世', tcell.ModShift|tcell.ModAlt)})
	key("\U0001F600", false, false, false, false)
	check("keydown U+1F600", []ri.Ev{rk(0x1F600, 0)})
	key("ArrowUp", false, false, true, false)
	check("keydown ArrowUp with Ctrl", []ri.Ev{{Kind: "key", Key: tcell.KeyUp, Mod: tcell.ModCtrl}})
	// paste: bracketed when enabled, plain keys when not; every character of the text, also
	// one outside the basic plane, is one key event
	paste := func(text string) {
		cd := ev(map[string]interface{}{})
		cd.Set("getData", js.FuncOf(func(this js.Value, a []js.Value) interface{} { return text }))
		e := ev(map[string]interface{}{"clipboardData": cd})
		e.Set("preventDefault", js.FuncOf(func(this js.Value, a []js.Value) interface{} { return nil }))
		doc.Call("dispatch", "paste", e)
	}
	for _, text := range []string{"ab", "é世", "a\U0001F600b", "\U00020000"} {
		var keys []ri.Ev
		for _, r := range text {
			keys = append(keys, rk(r, 0))
		}
		s.DisablePaste()
		paste(text)
		check(fmt.Sprintf("paste-disabled %q", text), keys)
		s.EnablePaste()
		paste(text)
		check(fmt.Sprintf("paste-enabled %q", text), append(append([]ri.Ev{{Kind: "paste", Flag: true}}, keys...), ri.Ev{Kind: "paste", Flag: false}))
	}
	s.DisablePaste()
	// mouse: the pointer position in pixels over the character cell size (800x480 for 80x24)
	mouse := func(kind string, px, py, which int, sh, alt, ctrl bool) {
		term.Call("dispatch", kind, ev(map[string]interface{}{"offsetX": px, "offsetY": py, "which": which, "shiftKey": sh, "altKey": alt, "ctrlKey": ctrl}))
	}
	s.EnableMouse()
	mouse("click", 25, 30, 1, false, false, false)
	check("click at pixel (25,30)", []ri.Ev{{Kind: "mouse", X: 2, Y: 1, Buttons: tcell.Button1}})
	mouse("click", 0, 0, 3, true, false, true)
	check("click right button at pixel (0,0) with Shift+Ctrl", []ri.Ev{{Kind: "mouse", X: 0, Y: 0, Buttons: tcell.Button2, Mod: tcell.ModShift | tcell.ModCtrl}})
	mouse("click", 799, 479, 1, false, false, false)
	check("click at pixel (799,479) on the 10x5 screen", []ri.Ev{{Kind: "mouse", X: 9, Y: 4, Buttons: tcell.Button1}})
	mouse("mousemove", 95, 99, 0, false, true, false)
	check("mousemove at pixel (95,99) with Alt", []ri.Ev{{Kind: "mouse", X: 9, Y: 4, Buttons: tcell.ButtonNone, Mod: tcell.ModAlt}})
	s.DisableMouse()
	mouse("click", 25, 30, 1, false, false, false)
	mouse("mousemove", 25, 30, 0, false, false, false)
	check("click and mousemove with the mouse disabled", nil)
	// focus
	term.Call("dispatch", "focus", ev(nil))
	term.Call("dispatch", "blur", ev(nil))
	check("focus and blur with focus reporting off", nil)
	s.EnableFocus()
	term.Call("dispatch", "focus", ev(nil))
	term.Call("dispatch", "blur", ev(nil))
	check("focus and blur", []ri.Ev{{Kind: "focus", Flag: true}, {Kind: "focus", Flag: false}})
	s.DisableFocus()
}

// pageCursor sequences: the cursor survives any order of ShowCursor / HideCursor / SetSize /
// Show: no call into the page throws, and after a Show exactly the requested cell (if it is
// on the screen) carries the cursor class.
func pageCursorSequences() {
	if !realPage || *hc.Shard != 1%*hc.NShards {
		return
	}
	type cop struct {
		name string
		do   func(s tcell.Screen)
	}
	var cx, cy = -1, -1
	var sw, sh = 4, 2
	ops := []cop{
		{"ShowCursor(3,1)", func(s tcell.Screen) { s.ShowCursor(3, 1); cx, cy = 3, 1 }},
		{"ShowCursor(0,0)", func(s tcell.Screen) { s.ShowCursor(0, 0); cx, cy = 0, 0 }},
		{"HideCursor", func(s tcell.Screen) { s.HideCursor(); cx, cy = -1, -1 }},
		{"SetSize(2,1)", func(s tcell.Screen) { s.SetSize(2, 1); sw, sh = 2, 1 }},
		{"SetSize(4,2)", func(s tcell.Screen) { s.SetSize(4, 2); sw, sh = 4, 2 }},
		{"SetContent(0,0,'x',bold)", func(s tcell.Screen) { s.SetContent(0, 0, 'x', nil, tcell.StyleDefault.Bold(true)) }},
		{"Show", func(s tcell.Screen) { s.Show() }},
	}
	var seqs [][]int
	var rec func(cur []int)
	rec = func(cur []int) {
		if len(cur) > 0 {
			seqs = append(seqs, append([]int(nil), cur...))
		}
		if len(cur) == 4 {
			return
		}
		for i := range ops {
			rec(append(cur, i))
		}
	}
	rec(nil)
	for _, sq := range seqs {
		w.R.Evaluations++
		w.AddDistinct(1)
		s := newScreen(4, 2)
		cx, cy, sw, sh = -1, -1, 4, 2
		var names []string
		failed := false
		for _, i := range sq {
			names = append(names, ops[i].name)
			func() {
				defer func() {
					if r := recover(); r != nil {
						w.Violation("wasm-page-throws:"+ops[i].name, fmt.Sprintf("sequence %v: the call into the page threw: %v", names, r), map[string]interface{}{"sequence": names})
						failed = true
					}
				}()
				ops[i].do(s)
			}()
			if failed {
				break
			}
		}
		if !failed {
			func() {
				defer func() {
					if r := recover(); r != nil {
						w.Violation("wasm-page-throws:Show", fmt.Sprintf("sequence %v, then Show: the call into the page threw: %v", names, r), map[string]interface{}{"sequence": names})
						failed = true
					}
				}()
				s.Show()
			}()
		}
		if !failed {
			at := pageCursor(sw, sh)
			var want [][2]int
			if cx >= 0 && cy >= 0 && cx < sw && cy < sh {
				want = [][2]int{{cx, cy}}
			}
			if fmt.Sprint(at) != fmt.Sprint(want) {
				w.Violation("wasm-page-cursor", fmt.Sprintf("sequence %v, then Show: the cells carrying a cursor class are %v, want %v", names, at, want), map[string]interface{}{"sequence": names})
			}
		}
		func() {
			defer func() { recover() }()
			s.Fini()
		}()
	}
}

// pageClearColours: the colours clearScreen is given become the page's own, black included
// (0 is a colour, not "no colour").
func pageClearColours() {
	if !realPage || *hc.Shard != 0 {
		return
	}
	w.R.Evaluations++
	w.AddDistinct(1)
	s := newScreen(4, 2)
	defer s.Fini()
	term := js.Global().Get("__term")
	s.SetStyle(tcell.StyleDefault.Foreground(tcell.ColorWhite).Background(tcell.ColorBlue))
	s.Sync()
	s.SetStyle(tcell.StyleDefault.Foreground(tcell.ColorRed).Background(tcell.ColorBlack))
	s.Sync()
	bg := term.Get("style").Get("backgroundColor")
	if bg.Type() != js.TypeString || bg.String() != "#000000" {
		got := "unset"
		if bg.Type() == js.TypeString {
			got = bg.String()
		}
		w.Violation("wasm-page-clear-colour", fmt.Sprintf("SetStyle(white on blue); Sync; SetStyle(red on black); Sync: the page's background is %s, want #000000 (the script takes the colour value 0 for \"no colour\")", got), nil)
	}
}
