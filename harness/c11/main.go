// C11 — typed and pasted text is delivered rune for rune, in order.
// Engine C: every encodable printable code point of every stateless registered charset,
// under every read split; short texts over representatives under every split, also inside
// paste brackets and around focus reports.
package main

import (
	"fmt"
	"strings"
	"unicode/utf8"

	"github.com/gdamore/tcell/v2"
	"github.com/gdamore/tcell/v2/terminfo"
	xenc "golang.org/x/text/encoding"

	"verif/harness/common"
	"verif/hc"
	ri "verif/ref/input"
)

var charsets = []string{"UTF-8", "US-ASCII", "ISO8859-1", "ISO8859-2", "ISO8859-3", "ISO8859-4", "ISO8859-5", "ISO8859-6", "ISO8859-7", "ISO8859-8",
	"ISO8859-9", "ISO8859-10", "ISO8859-13", "ISO8859-14", "ISO8859-15", "ISO8859-16", "KOI8-R", "KOI8-U",
	"EUC-JP", "SHIFT_JIS", "EUC-KR", "GB18030", "GBK", "Big5",
	"GB2312"} // what a zh_CN.GB2312 locale means: the EUC form of GB 2312-80 (common.EUCCN)

type cs struct {
	name string
	enc  xenc.Encoding
}

// encode returns the charset's encoding of r if r round-trips through the x/text codec
// (which is taken as the definition of the charset).
func (c *cs) encode(r rune) ([]byte, bool) {
	if c.enc == common.EUCCN && common.EUCCNAmbiguous(r) {
		return nil, false // GB 2312-80 proper and the GBK table differ there
	}
	var src [4]byte
	n := utf8.EncodeRune(src[:], r)
	dst := make([]byte, 8)
	e := c.enc.NewEncoder()
	nd, ns, err := e.Transform(dst, src[:n], true)
	if err != nil || ns != n || nd == 0 {
		return nil, false
	}
	if dst[0] == 0x1a && r != 0x1a {
		return nil, false
	}
	back := make([]byte, 8)
	d := c.enc.NewDecoder()
	nb, nsrc, err := d.Transform(back, dst[:nd], true)
	if err != nil || nsrc != nd {
		return nil, false
	}
	rr, sz := utf8.DecodeRune(back[:nb])
	if rr != r || sz != nb {
		return nil, false
	}
	return dst[:nd], true
}

func printable(r rune) bool {
	if r < 0x20 || r == 0x7f || (r >= 0x80 && r < 0xa0) {
		return false
	}
	if r >= 0xd800 && r <= 0xdfff {
		return false
	}
	if r == utf8.RuneError {
		return false // indistinguishable from a decoding error
	}
	return true
}

func fmtEvs(evs []ri.Ev) string {
	s := make([]string, len(evs))
	for i, e := range evs {
		s[i] = e.String()
	}
	return "[" + strings.Join(s, " ") + "]"
}

type rig struct {
	p  *tcell.VerifParser
	cs string
	ti string
}

func newRig(entry, charset string) *rig {
	p, err := tcell.VerifNewParser(terminfo.VerifGet(entry), charset, 80, 24)
	if err != nil {
		panic(fmt.Sprint(entry, charset, err))
	}
	return &rig{p, charset, entry}
}

var curChunks [][]byte

// run feeds the chunks, then lets the timeout pass.
func (r *rig) run(chunks [][]byte) (out []ri.Ev) {
	defer func() {
		if x := recover(); x != nil {
			out = append(out, ri.Ev{Kind: fmt.Sprintf("PANIC(%v)", x)})
		}
	}()
	r.p.Reset()
	curChunks = chunks
	for _, c := range chunks {
		out = append(out, ri.ConvAll(r.p.Feed(c))...)
	}
	out = append(out, ri.ConvAll(r.p.Expire())...)
	if n := len(r.p.Pending()); n > 0 {
		out = append(out, ri.Ev{Kind: fmt.Sprintf("LEFTOVER(%d)", n)})
	}
	return
}

// partitions of b used for every case: one read, every two-chunk split, byte-wise.
func partitions(b []byte) [][][]byte {
	out := [][][]byte{{b}}
	for i := 1; i < len(b); i++ {
		out = append(out, [][]byte{b[:i], b[i:]})
	}
	if len(b) > 2 {
		var bw [][]byte
		for i := range b {
			bw = append(bw, b[i:i+1])
		}
		out = append(out, bw)
	}
	return out
}

func describe(p [][]byte) string {
	s := make([]string, len(p))
	for i, c := range p {
		s[i] = fmt.Sprintf("%q", string(c))
	}
	return strings.Join(s, " | ")
}

func main() {
	w := hc.Start("C11")
	w.WatchStall(func() (string, string, interface{}) {
		var cs []string
		for _, c := range curChunks {
			cs = append(cs, fmt.Sprintf("%q", string(c)))
		}
		return "decode", "decoding the reads " + strings.Join(cs, " | ") + " (collectEventsFromInput does not return)", map[string]interface{}{"chunks": cs}
	})
	w.R.Rule = "for each stateless registered charset (+US-ASCII, UTF-8): every printable code point that round-trips through the x/text codec, as a one-character text, fed in one read, byte-wise and at every two-chunk split; all texts of length <=3 over 8 representatives per charset (each encoded length, first/last) under every split, bare, inside paste brackets, and with focus reports between characters, on a terminal with (xterm-256color) and without (vt220) paste support. distinct_nontrivial = distinct (charset, text) cases containing at least one multi-byte character"
	w.R.Assumptions = []string{"the x/text (and gdamore/encoding) codecs define which byte strings are valid text of a charset", "U+FFFD is checked separately from the sweep (a decoder substitutes it for invalid input, so its delivery needs the comparison with its own encoding; repaired in the sixth round)", "splits are exhaustive for two chunks plus byte-wise; by the splitting argument in DESIGN.md 1.4 (state compared in C02) this covers every partition"}

	if *hc.Replay != "" {
		var rp struct {
			Entry, Charset string
			Chunks         []string
		}
		if err := hc.LoadReplay(&rp); err != nil {
			fmt.Println(err)
			return
		}
		r := newRig(rp.Entry, rp.Charset)
		var ch [][]byte
		for _, c := range rp.Chunks {
			ch = append(ch, []byte(c))
		}
		fmt.Println(fmtEvs(r.run(ch)))
		return
	}

	for ci, name := range charsets {
		enc := tcell.GetEncoding(name)
		if enc == nil {
			w.Violation("no-encoding:"+name, "charset "+name+" is not registered", nil)
			continue
		}
		c := &cs{name, common.RefCodec(name, enc)}
		sweep(w, c, ci)
		texts(w, c, ci)
	}
	w.Finish()
}

func check(w *hc.W, r *rig, kind string, b []byte, want []ri.Ev, text string) bool {
	for _, p := range partitions(b) {
		w.R.Evaluations++
		got := r.run(p)
		if !ri.EqEvs(got, want) {
			split := "one-read"
			if len(p) == 2 {
				split = "split"
			} else if len(p) > 2 {
				split = "bytewise"
			}
			var chunks []string
			for _, c := range p {
				chunks = append(chunks, string(c))
			}
			w.Violation(fmt.Sprintf("%s:%s:%s", kind, r.cs, split), fmt.Sprintf("charset %s on %s, text %q sent as %s: events %s, want %s", r.cs, r.ti, text, describe(p), fmtEvs(got), fmtEvs(want)),
				map[string]interface{}{"Entry": r.ti, "Charset": r.cs, "Chunks": chunks})
			return false
		}
	}
	return true
}

func runeEv(r rune) ri.Ev { return ri.Ev{Kind: "key", Key: tcell.KeyRune, Rune: r} }

func sweep(w *hc.W, c *cs, ci int) {
	r := newRig("xterm-256color", c.name)
	max := rune(0x10ffff)
	if !hc.Thorough() && (c.name == "GB18030" || c.name == "UTF-8") {
		max = 0x2ffff // quick: BMP and the first two supplementary planes
	}
	n, multi, bad := 0, 0, 0
	for x := rune(0x20); x <= max; x++ {
		if int(x)%*hc.NShards != *hc.Shard || !printable(x) {
			continue
		}
		b, ok := c.encode(x)
		if !ok {
			continue
		}
		n++
		if len(b) > 1 {
			multi++
			w.AddDistinct(1)
		}
		if bad < 3 && !check(w, r, "char", b, []ri.Ev{runeEv(x)}, string(x)) {
			bad++
		}
		if n%4096 == 0 && w.Expired() {
			break
		}
	}
	w.Count("chars:"+c.name, int64(n))
	w.Count("multibyte:"+c.name, int64(multi))
	// byte-driven complement: a character of the set may decode to more than one rune (Big5
	// 88 62 is a letter followed by its combining macron); every two-byte sequence that is
	// valid text and decodes to several runes must deliver all of them, in order
	if *hc.Shard == 0 && c.name != "UTF-8" {
		for b0 := 0x80; b0 <= 0xff; b0++ {
			for b1 := 0x20; b1 <= 0xff; b1++ {
				in := []byte{byte(b0), byte(b1)}
				out, err := c.enc.NewDecoder().Bytes(in)
				if err != nil || utf8.RuneCount(out) < 2 || strings.ContainsRune(string(out), utf8.RuneError) {
					continue
				}
				// (two one-byte characters are the code point sweep's business)
				if one, err := c.enc.NewDecoder().Bytes(in[:1]); err == nil && len(one) > 0 && !strings.ContainsRune(string(one), utf8.RuneError) {
					continue
				}
				var want []ri.Ev
				ok := true
				for _, x := range string(out) {
					want = append(want, runeEv(x))
					if x < 0x20 {
						ok = false
					}
				}
				if !ok {
					continue
				}
				w.AddDistinct(1)
				w.Count("multirune:"+c.name, 1)
				if bad < 6 && !check(w, r, "multi-rune-char", in, want, string(out)) {
					bad++
				}
			}
		}
	}
	// U+FFFD REPLACEMENT CHARACTER is a printable scalar value too; it is kept out of the
	// sweep above (and of the representatives) only so that its fate is reported on its own
	if *hc.Shard == 0 {
		if b, ok := c.encode(utf8.RuneError); ok && len(b) > 1 {
			check(w, r, "replacement-char", b, []ri.Ev{runeEv(utf8.RuneError)}, "\ufffd")
		}
	}
}

// representatives: 'a' plus characters of every encoded length, spread over the repertoire.
func reps(c *cs) []rune {
	byLen := map[int][]rune{}
	for x := rune(0xa0); x <= 0x2ffff; x++ {
		if !printable(x) {
			continue
		}
		if b, ok := c.encode(x); ok {
			byLen[len(b)] = append(byLen[len(b)], x)
		}
	}
	out := []rune{'a', '~'}
	for l := 1; l <= 4; l++ {
		v := byLen[l]
		if len(v) == 0 {
			continue
		}
		out = append(out, v[0], v[len(v)-1])
		if len(v) > 2 {
			out = append(out, v[len(v)/2])
		}
	}
	if len(out) > 8 {
		out = out[:8]
	}
	return out
}

func texts(w *hc.W, c *cs, ci int) {
	if !hc.Mine(ci) {
		return
	}
	rp := reps(c)
	enc := func(s []rune) []byte {
		var b []byte
		for _, x := range s {
			e, _ := c.encode(x)
			b = append(b, e...)
		}
		return b
	}
	w.Sample(map[string]interface{}{"charset": c.name, "representatives": string(rp)})
	for _, entry := range []string{"xterm-256color", "vt220"} {
		r := newRig(entry, c.name)
		hasPaste := entry == "xterm-256color"
		var cur []rune
		var rec func(d int)
		rec = func(d int) {
			if len(cur) > 0 {
				b := enc(cur)
				var want []ri.Ev
				for _, x := range cur {
					want = append(want, runeEv(x))
				}
				multi := len(b) > len(cur)
				if multi {
					w.AddDistinct(1)
				}
				check(w, r, "text", b, want, string(cur))
				if hasPaste {
					pb := append(append([]byte("\x1b[200~"), b...), []byte("\x1b[201~")...)
					pw := append(append([]ri.Ev{{Kind: "paste", Flag: true}}, want...), ri.Ev{Kind: "paste", Flag: false})
					check(w, r, "paste", pb, pw, string(cur))
				}
				if len(cur) >= 2 {
					// focus-out after the first character, focus-in before the last
					fb := append(append([]byte{}, enc(cur[:1])...), []byte("\x1b[O")...)
					fb = append(fb, enc(cur[1:len(cur)-1])...)
					fb = append(fb, []byte("\x1b[I")...)
					fb = append(fb, enc(cur[len(cur)-1:])...)
					fw := []ri.Ev{want[0], {Kind: "focus", Flag: false}}
					fw = append(fw, want[1:len(want)-1]...)
					fw = append(fw, ri.Ev{Kind: "focus", Flag: true}, want[len(want)-1])
					check(w, r, "focus", fb, fw, string(cur))
				}
			}
			if d == 3 {
				return
			}
			for _, x := range rp {
				cur = append(cur, x)
				rec(d + 1)
				cur = cur[:len(cur)-1]
			}
		}
		rec(0)
	}
}
