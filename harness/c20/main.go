// C20 — ViewPort and BoxLayout keep content inside disjoint, correctly sized regions.
// Engine A on the public views API with a recording parent View and recording child
// widgets; ViewPort: BFS over operation histories with full-state keys; BoxLayout: complete
// enumeration of child lists x extents x orientations plus BFS over edit histories.
package main

import (
	"fmt"
	"math"
	"strings"

	"github.com/gdamore/tcell/v2"
	"github.com/gdamore/tcell/v2/views"

	"verif/hc"
	"verif/seq"
)

var w *hc.W

// ---------- recording parent ----------

type write struct {
	x, y int
	r    rune
}

type recView struct {
	w, h   int
	writes []write
	fills  int
}

func (v *recView) SetContent(x, y int, ch rune, comb []rune, st tcell.Style) {
	v.writes = append(v.writes, write{x, y, ch})
}
func (v *recView) Size() (int, int)      { return v.w, v.h }
func (v *recView) Resize(x, y, w, h int) {}
func (v *recView) Fill(r rune, st tcell.Style) {
	v.fills++
	for y := 0; y < v.h; y++ {
		for x := 0; x < v.w; x++ {
			v.writes = append(v.writes, write{x, y, r})
		}
	}
}
func (v *recView) Clear() { v.Fill(' ', tcell.StyleDefault) }

// ---------- ViewPort ----------

type vop struct {
	kind       string
	a, b, c, d int
	flag       bool
}

func (o vop) String() string {
	switch o.kind {
	case "Resize":
		return fmt.Sprintf("Resize(%d,%d,%d,%d)", o.a, o.b, o.c, o.d)
	case "SetContentSize":
		return fmt.Sprintf("SetContentSize(%d,%d,%v)", o.a, o.b, o.flag)
	case "SetSize", "Center", "MakeVisible", "SetContent":
		return fmt.Sprintf("%s(%d,%d)", o.kind, o.a, o.b)
	}
	return fmt.Sprintf("%s(%d)", o.kind, o.a)
}

func vops() []vop {
	var ops []vop
	for _, p := range [][2]int{{-1, -1}, {0, 0}, {1, 0}, {0, 1}, {4, 4}} {
		for _, s := range [][2]int{{-1, -1}, {0, 0}, {2, 1}, {1, 2}, {6, 6}} {
			ops = append(ops, vop{kind: "Resize", a: p[0], b: p[1], c: s[0], d: s[1]})
		}
	}
	for _, s := range [][2]int{{0, 0}, {1, 1}, {3, 7}, {7, 3}} {
		ops = append(ops, vop{kind: "SetContentSize", a: s[0], b: s[1], flag: true}, vop{kind: "SetContentSize", a: s[0], b: s[1], flag: false})
	}
	for _, s := range [][2]int{{0, 0}, {2, 2}, {6, 1}} {
		ops = append(ops, vop{kind: "SetSize", a: s[0], b: s[1]})
	}
	for _, k := range []string{"ScrollUp", "ScrollDown", "ScrollLeft", "ScrollRight"} {
		for _, n := range []int{-1, 0, 1, 3, 100} {
			ops = append(ops, vop{kind: k, a: n})
		}
	}
	for _, p := range [][2]int{{-1, 0}, {0, 0}, {2, 2}, {6, 6}, {8, 1}} {
		ops = append(ops, vop{kind: "Center", a: p[0], b: p[1]}, vop{kind: "MakeVisible", a: p[0], b: p[1]})
	}
	for _, p := range [][2]int{{-1, -1}, {0, 0}, {3, 0}, {0, 3}, {8, 8}} {
		ops = append(ops, vop{kind: "SetContent", a: p[0], b: p[1]})
	}
	return ops
}

type vsys struct {
	parent *recView
	vp     *views.ViewPort
	locked bool
	ops    []vop
}

func (s *vsys) Close() {}

func (s *vsys) geom() (vx, vy, w, h, px, py, lx, ly int) {
	vx, vy, x2, y2 := s.vp.GetVisible()
	px, py, _, _ = s.vp.GetPhysical()
	lx, ly = s.vp.GetContentSize()
	return vx, vy, x2 - vx + 1, y2 - vy + 1, px, py, lx, ly
}

func (s *vsys) Key() string {
	return fmt.Sprint(s.geom()) + fmt.Sprint(s.locked)
}

func clamp(v, lim, size int) int {
	if v > lim-size {
		v = lim - size
	}
	if v < 0 {
		v = 0
	}
	return v
}

func (s *vsys) Apply(i int) (sig, desc string) {
	o := s.ops[i]
	defer func() {
		if r := recover(); r != nil {
			sig, desc = "viewport-panic:"+o.kind, fmt.Sprintf("%v panicked: %v", o, r)
		}
	}()
	vx, vy, wd, ht, _, _, lx, ly := s.geom()
	s.parent.writes = s.parent.writes[:0]
	// expected offsets for the axes the operation adjusts (-999 = not adjusted / not specified)
	ex, ey := -999, -999
	switch o.kind {
	case "Resize":
		s.vp.Resize(o.a, o.b, o.c, o.d)
	case "SetContentSize":
		s.vp.SetContentSize(o.a, o.b, o.flag)
		s.locked = o.flag
	case "SetSize":
		s.vp.SetSize(o.a, o.b)
	case "ScrollUp":
		s.vp.ScrollUp(o.a)
		ey = clamp(vy-o.a, ly, ht)
	case "ScrollDown":
		s.vp.ScrollDown(o.a)
		ey = clamp(vy+o.a, ly, ht)
	case "ScrollLeft":
		s.vp.ScrollLeft(o.a)
		ex = clamp(vx-o.a, lx, wd)
	case "ScrollRight":
		s.vp.ScrollRight(o.a)
		ex = clamp(vx+o.a, lx, wd)
	case "Center":
		s.vp.Center(o.a, o.b)
	case "MakeVisible":
		s.vp.MakeVisible(o.a, o.b)
	case "SetContent":
		s.vp.SetContent(o.a, o.b, 'c', nil, tcell.StyleDefault)
	}
	nvx, nvy, nw, nh, npx, npy, nlx, nly := s.geom()
	if o.kind == "Center" && (o.a < 0 || o.b < 0 || o.a >= lx || o.b >= ly) {
		// "centers the point, if possible": a point outside the content is not centred and the
		// call moves nothing - whatever the window was before (a Resize may have grown the view
		// past the content without any scrolling call) it still is
		if nvx != vx || nvy != vy {
			return "viewport-center-moved", fmt.Sprintf("after %v (a point outside the %dx%d content): the offset moved from (%d,%d) to (%d,%d)", o, lx, ly, vx, vy, nvx, nvy)
		}
		return "", ""
	}
	adjX := o.kind == "ScrollLeft" || o.kind == "ScrollRight" || o.kind == "Center" || o.kind == "MakeVisible" || o.kind == "SetSize" || o.kind == "SetContentSize"
	adjY := o.kind == "ScrollUp" || o.kind == "ScrollDown" || o.kind == "Center" || o.kind == "MakeVisible" || o.kind == "SetSize" || o.kind == "SetContentSize"
	if adjX {
		if nvx < 0 || (nlx > nw && nw >= 0 && nvx+nw > nlx) {
			return "viewport-limits:" + o.kind, fmt.Sprintf("after %v: horizontal offset %d with view width %d and content width %d leaves the content limits", o, nvx, nw, nlx)
		}
	}
	if adjY {
		if nvy < 0 || (nly > nh && nh >= 0 && nvy+nh > nly) {
			return "viewport-limits:" + o.kind, fmt.Sprintf("after %v: vertical offset %d with view height %d and content height %d leaves the content limits", o, nvy, nh, nly)
		}
	}
	if ex != -999 && nvx != ex {
		return "viewport-scroll:" + o.kind, fmt.Sprintf("%v from offset %d (width %d, content %d): new offset %d, want %d", o, vx, wd, lx, nvx, ex)
	}
	if ey != -999 && nvy != ey {
		return "viewport-scroll:" + o.kind, fmt.Sprintf("%v from offset %d (height %d, content %d): new offset %d, want %d", o, vy, ht, ly, nvy, ey)
	}
	if o.kind == "MakeVisible" && o.a >= 0 && o.a < lx && o.b >= 0 && o.b < ly && nw > 0 && nh > 0 && lx >= nw && ly >= nh {
		if o.a < nvx || o.a >= nvx+nw || o.b < nvy || o.b >= nvy+nh {
			return "viewport-makevisible", fmt.Sprintf("after %v the cell is not visible: window x %d..%d y %d..%d", o, nvx, nvx+nw-1, nvy, nvy+nh-1)
		}
	}
	if o.kind == "SetContent" {
		if sg, d := s.checkWrites(o.a, o.b, o.a, o.b, vx, vy, wd, ht, npx, npy, o); sg != "" {
			return sg, d
		}
	}
	// probe: draw every content cell of -1..8 x -1..8 through a copy of the viewport
	cp := *s.vp
	for y := -1; y <= 8; y++ {
		for x := -1; x <= 8; x++ {
			s.parent.writes = s.parent.writes[:0]
			cp2 := cp
			cp2.SetContent(x, y, 'p', nil, tcell.StyleDefault)
			if sg, d := s.checkWrites(x, y, x, y, nvx, nvy, nw, nh, npx, npy, o); sg != "" {
				return sg, d
			}
		}
	}
	// Fill / Clear stay inside the rectangle too
	s.parent.writes = s.parent.writes[:0]
	cp.Fill('f', tcell.StyleDefault)
	cnt := 0
	for _, wr := range s.parent.writes {
		if wr.x < npx || wr.x >= npx+nw || wr.y < npy || wr.y >= npy+nh {
			return "viewport-fill", fmt.Sprintf("after %v: Fill wrote parent cell (%d,%d) outside the viewport rectangle x %d..%d y %d..%d", o, wr.x, wr.y, npx, npx+nw-1, npy, npy+nh-1)
		}
		cnt++
	}
	if nw > 0 && nh > 0 && cnt != nw*nh {
		return "viewport-fill", fmt.Sprintf("after %v: Fill wrote %d cells, viewport is %dx%d", o, cnt, nw, nh)
	}
	return "", ""
}

// checkWrites verifies the parent writes caused by SetContent(x,y) on a viewport with the
// given geometry: exactly one write at content-offset+origin if inside, none otherwise.
func (s *vsys) checkWrites(x, y, _, _ int, vx, vy, wd, ht, px, py int, o vop) (string, string) {
	inside := x >= vx && y >= vy && x < vx+wd && y < vy+ht
	ws := s.parent.writes
	if !inside {
		if len(ws) != 0 {
			return "viewport-clip", fmt.Sprintf("after %v: content cell (%d,%d) is outside the visible window x %d..%d y %d..%d but reached the parent at (%d,%d)", o, x, y, vx, vx+wd-1, vy, vy+ht-1, ws[0].x, ws[0].y)
		}
		return "", ""
	}
	if len(ws) != 1 || ws[0].x != x-vx+px || ws[0].y != y-vy+py {
		return "viewport-translate", fmt.Sprintf("after %v: content cell (%d,%d) with offset (%d,%d) origin (%d,%d) should reach the parent at (%d,%d); parent writes: %v", o, x, y, vx, vy, px, py, x-vx+px, y-vy+py, ws)
	}
	return "", ""
}

func viewports() {
	ops := vops()
	d := 4
	if hc.Thorough() {
		d = 6
	}
	for _, ps := range [][2]int{{5, 5}, {3, 2}, {0, 0}} {
		ps := ps
		name := fmt.Sprintf("viewport-parent%dx%d", ps[0], ps[1])
		if *hc.Only != "" && *hc.Only != name {
			continue
		}
		cfg := &seq.Config{Name: name, NOps: len(ops), Depth: d,
			OpName: func(i int) string { return ops[i].String() },
			New: func() seq.Sys {
				p := &recView{w: ps[0], h: ps[1]}
				return &vsys{parent: p, vp: views.NewViewPort(p, 0, 0, -1, -1), ops: ops}
			},
			Mine: hc.Mine, Shard0: *hc.Shard == 0, ShardDepth: 2, Stop: w.Expired,
			OnViolation: func(sig, desc string, hist []int) {
				var names []string
				for _, o := range hist {
					names = append(names, ops[o].String())
				}
				w.Violation(sig, name+": "+desc+"\n history: "+strings.Join(names, "; "), map[string]interface{}{"scenario": name, "ops": hist})
			},
		}
		st := seq.Explore(cfg)
		w.R.States += st.States
		w.R.Transitions += st.Transitions
		w.R.Executions += st.Transitions
		w.R.Scenarios[name] = st.Summary()
		for _, h := range st.SampleHist {
			w.Sample(map[string]interface{}{"scenario": name, "history": h})
		}
		if st.Stopped {
			w.NotExhaustive(name + " stopped early")
		}
	}
}

// ---------- BoxLayout ----------

type recWidget struct {
	id     rune
	pw, ph int
	view   views.View
}

func (r *recWidget) Draw() {
	if r.view == nil {
		return
	}
	w, h := r.view.Size()
	// deliberately also draws one cell beyond each edge: the viewport must clip
	for y := -1; y <= h; y++ {
		for x := -1; x <= w; x++ {
			r.view.SetContent(x, y, r.id, nil, tcell.StyleDefault)
		}
	}
}
func (r *recWidget) Resize()                            {}
func (r *recWidget) HandleEvent(ev tcell.Event) bool    { return false }
func (r *recWidget) SetView(v views.View)               { r.view = v }
func (r *recWidget) Size() (int, int)                   { return r.pw, r.ph }
func (r *recWidget) Watch(h tcell.EventHandler)         {}
func (r *recWidget) Unwatch(h tcell.EventHandler)       {}

type child struct {
	pref int
	fill float64
}

// checkLayout draws the layout into the recording parent and checks the geometry of what
// every child managed to draw.
func checkLayout(bl *views.BoxLayout, parent *recView, kids []*recWidget, fills []float64, horiz bool, ctx string) (string, string) {
	parent.writes = parent.writes[:0]
	bl.Draw()
	W, H := parent.w, parent.h
	grid := make([]rune, W*H)
	for _, wr := range parent.writes {
		if wr.x < 0 || wr.y < 0 || wr.x >= W || wr.y >= H {
			if wr.r != ' ' {
				return "box-outside", fmt.Sprintf("%s: child %c wrote parent cell (%d,%d) outside the layout's %dx%d view", ctx, wr.r, wr.x, wr.y, W, H)
			}
			continue
		}
		grid[wr.y*W+wr.x] = wr.r
	}
	extent, cross := W, H
	if !horiz {
		extent, cross = H, W
	}
	// along the axis, read which child owns each position (taking the first cross line)
	at := func(a, c int) rune {
		if horiz {
			return grid[c*W+a]
		}
		return grid[a*W+c]
	}
	sumPref := 0
	totf := 0.0
	for i, k := range kids {
		if horiz {
			sumPref += k.pw
		} else {
			sumPref += k.ph
		}
		totf += fills[i]
	}
	// each cross line must show the same ownership (children span the full cross extent)
	owner := make([]rune, extent)
	for a := 0; a < extent; a++ {
		if cross > 0 {
			owner[a] = at(a, 0)
		}
		for c := 1; c < cross; c++ {
			if at(a, c) != owner[a] {
				return "box-cross", fmt.Sprintf("%s: position %d along the axis is owned by %q on line 0 but %q on line %d", ctx, a, owner[a], at(a, c), c)
			}
		}
	}
	if cross == 0 {
		return "", ""
	}
	// children appear in order, each as one contiguous run
	pos := 0
	got := make([]int, len(kids))
	for i, k := range kids {
		start := pos
		for pos < extent && owner[pos] == k.id {
			pos++
		}
		got[i] = pos - start
	}
	for a := pos; a < extent; a++ {
		if owner[a] != ' ' && owner[a] != 0 {
			return "box-order", fmt.Sprintf("%s: ownership along the axis %q is not the children in order as contiguous runs", ctx, string(owner))
		}
	}
	if sumPref <= extent {
		extra := extent - sumPref
		sumExtra := 0
		for i, k := range kids {
			pref := k.pw
			if !horiz {
				pref = k.ph
			}
			if got[i] < pref {
				return "box-preferred", fmt.Sprintf("%s: child %c got %d cells, preferred %d, although the children's preferred extents (%d) fit into %d (ownership %q)", ctx, k.id, got[i], pref, sumPref, extent, string(owner))
			}
			ex := got[i] - pref
			sumExtra += ex
			if totf > 0 {
				share := float64(extra) * fills[i] / totf
				if float64(ex) < math.Floor(share)-1e-9 || float64(ex) > math.Ceil(share)+1e-9 {
					return "box-share", fmt.Sprintf("%s: child %c got %d surplus cells, its proportional share of %d is %.3f (fills %v)", ctx, k.id, ex, extra, share, fills)
				}
			} else if ex != 0 {
				return "box-share", fmt.Sprintf("%s: child %c got %d surplus cells although no child has a fill factor", ctx, k.id, ex)
			}
		}
		if totf > 0 && sumExtra != extra {
			return "box-surplus", fmt.Sprintf("%s: %d surplus cells distributed, %d available (ownership %q)", ctx, sumExtra, extra, string(owner))
		}
	}
	return "", ""
}

func build(horiz bool, kids []child, ext, cross int) (*views.BoxLayout, *recView, []*recWidget, []float64) {
	parent := &recView{w: ext, h: cross}
	o := views.Horizontal
	if !horiz {
		parent = &recView{w: cross, h: ext}
		o = views.Vertical
	}
	bl := views.NewBoxLayout(o)
	bl.SetView(parent)
	var ws []*recWidget
	var fs []float64
	for i, k := range kids {
		rw := &recWidget{id: rune('A' + i), pw: k.pref, ph: 1}
		if !horiz {
			rw.pw, rw.ph = 1, k.pref
		}
		bl.AddWidget(rw, k.fill)
		ws = append(ws, rw)
		fs = append(fs, k.fill)
	}
	return bl, parent, ws, fs
}

func boxStatic() {
	prefs := []int{0, 1, 3}
	fills := []float64{0, 0.5, 1, 2}
	maxN := 4
	idx := 0
	var kids []child
	var rec func()
	rec = func() {
		if len(kids) > 0 {
			idx++
			if hc.Mine(idx) {
				for _, horiz := range []bool{true, false} {
					for ext := 0; ext <= 12; ext++ {
						w.R.Evaluations++
						func() {
							ctx := fmt.Sprintf("horizontal=%v children(pref,fill)=%v extent=%d", horiz, kids, ext)
							defer func() {
								if r := recover(); r != nil {
									w.Violation("box-panic", fmt.Sprintf("%s: panic: %v", ctx, r), nil)
								}
							}()
							bl, parent, ws, fs := build(horiz, kids, ext, 2)
							if sig, d := checkLayout(bl, parent, ws, fs, horiz, ctx); sig != "" {
								w.Violation(sig, d, map[string]interface{}{"horizontal": horiz, "children": fmt.Sprint(kids), "extent": ext})
							}
						}()
					}
				}
				w.AddDistinct(26)
			}
		}
		if len(kids) == maxN {
			return
		}
		for _, p := range prefs {
			for _, f := range fills {
				kids = append(kids, child{p, f})
				rec()
				kids = kids[:len(kids)-1]
			}
		}
	}
	rec()
	// thorough: n = 5 exhaustively and n = 8 over a reduced alphabet
	if hc.Thorough() {
		maxN = 5
		kids = kids[:0]
		var rec5 func()
		rec5 = func() {
			if len(kids) == 5 {
				idx++
				if hc.Mine(idx) {
					for _, horiz := range []bool{true, false} {
						for _, ext := range []int{0, 3, 7, 12, 16} {
							w.R.Evaluations++
							ctx := fmt.Sprintf("horizontal=%v children(pref,fill)=%v extent=%d", horiz, kids, ext)
							bl, parent, ws, fs := build(horiz, kids, ext, 2)
							if sig, d := checkLayout(bl, parent, ws, fs, horiz, ctx); sig != "" {
								w.Violation(sig, d, nil)
							}
						}
					}
				}
				return
			}
			for _, p := range prefs {
				for _, f := range fills {
					kids = append(kids, child{p, f})
					rec5()
					kids = kids[:len(kids)-1]
				}
			}
		}
		rec5()
		var rec8 func()
		rec8 = func() {
			if len(kids) == 8 {
				idx++
				if hc.Mine(idx) {
					for _, ext := range []int{8, 13, 24, 31} {
						w.R.Evaluations++
						ctx := fmt.Sprintf("horizontal=true children(pref,fill)=%v extent=%d", kids, ext)
						bl, parent, ws, fs := build(true, kids, ext, 1)
						if sig, d := checkLayout(bl, parent, ws, fs, true, ctx); sig != "" {
							w.Violation(sig, d, nil)
						}
					}
				}
				return
			}
			for _, p := range []int{1, 2} {
				for _, f := range []float64{0, 1, 3} {
					kids = append(kids, child{p, f})
					rec8()
					kids = kids[:len(kids)-1]
				}
			}
		}
		kids = kids[:0]
		rec8()
	}
	w.Sample(map[string]interface{}{"boxlayout": "horizontal, children (pref,fill) [(1,0.5) (3,0) (0,2)], extent 9", "expect": "A: 1+1, B: 3, C: 0+4 cells, in order, disjoint, full cross extent"})
}

// ---- BoxLayout edit histories ----

type bop struct {
	kind string
	a    int
	c    child
}

func (o bop) String() string {
	switch o.kind {
	case "Add":
		return fmt.Sprintf("AddWidget(pref %d, fill %v)", o.c.pref, o.c.fill)
	case "Insert":
		return fmt.Sprintf("InsertWidget(%d, pref %d, fill %v)", o.a, o.c.pref, o.c.fill)
	case "Remove":
		return fmt.Sprintf("RemoveWidget(#%d)", o.a)
	case "Resize":
		return fmt.Sprintf("parent extent -> %d; Resize()", o.a)
	case "Orient":
		return "toggle orientation"
	}
	return o.kind
}

type bsys struct {
	bl     *views.BoxLayout
	parent *recView
	kids   []*recWidget
	fills  []float64
	horiz  bool
	ext    int
	next   int
	ops    []bop
}

func (s *bsys) Close() {}
func (s *bsys) Key() string {
	var sb strings.Builder
	fmt.Fprintf(&sb, "%v %d |", s.horiz, s.ext)
	for i, k := range s.kids {
		fmt.Fprintf(&sb, "%d,%d,%v;", k.pw, k.ph, s.fills[i])
		// implementation side: the geometry the layout gave this child
		if vp, ok := k.view.(*views.ViewPort); ok {
			a, b, c, d := vp.GetPhysical()
			e, f, g, h := vp.GetVisible()
			fmt.Fprint(&sb, a, b, c, d, e, f, g, h)
		}
	}
	bw, bh := s.bl.Size()
	fmt.Fprint(&sb, bw, bh)
	return sb.String()
}

func (s *bsys) setParent() {
	if s.horiz {
		s.parent.w, s.parent.h = s.ext, 2
	} else {
		s.parent.w, s.parent.h = 2, s.ext
	}
}

func (s *bsys) mk(c child) *recWidget {
	rw := &recWidget{id: rune('A' + s.next%26)}
	s.next++
	s.size(rw, c.pref)
	return rw
}

func (s *bsys) size(rw *recWidget, pref int) {
	if s.horiz {
		rw.pw, rw.ph = pref, 1
	} else {
		rw.pw, rw.ph = 1, pref
	}
}

func (s *bsys) Apply(i int) (sig, desc string) {
	o := s.ops[i]
	defer func() {
		if r := recover(); r != nil {
			sig, desc = "box-panic:"+o.kind, fmt.Sprintf("%v panicked: %v", o, r)
		}
	}()
	switch o.kind {
	case "Add":
		if len(s.kids) >= 4 {
			return "", ""
		}
		rw := s.mk(o.c)
		s.bl.AddWidget(rw, o.c.fill)
		s.kids = append(s.kids, rw)
		s.fills = append(s.fills, o.c.fill)
	case "Insert":
		if len(s.kids) >= 4 {
			return "", ""
		}
		rw := s.mk(o.c)
		s.bl.InsertWidget(o.a, rw, o.c.fill)
		ix := o.a
		if ix < 0 {
			ix = 0
		}
		if ix > len(s.kids) {
			ix = len(s.kids)
		}
		s.kids = append(s.kids, nil)
		copy(s.kids[ix+1:], s.kids[ix:])
		s.kids[ix] = rw
		s.fills = append(s.fills, 0)
		copy(s.fills[ix+1:], s.fills[ix:])
		s.fills[ix] = o.c.fill
	case "Remove":
		if o.a >= len(s.kids) {
			return "", ""
		}
		s.bl.RemoveWidget(s.kids[o.a])
		s.kids = append(s.kids[:o.a:o.a], s.kids[o.a+1:]...)
		s.fills = append(s.fills[:o.a:o.a], s.fills[o.a+1:]...)
	case "Resize":
		s.ext = o.a
		s.setParent()
		s.bl.Resize()
	case "Orient":
		s.horiz = !s.horiz
		for _, k := range s.kids {
			p := k.pw
			if k.ph > p {
				p = k.ph
			}
			if k.pw == 1 && k.ph == 1 {
				p = 1
			}
			s.size(k, p)
		}
		s.setParent()
		if s.horiz {
			s.bl.SetOrientation(views.Horizontal)
		} else {
			s.bl.SetOrientation(views.Vertical)
		}
	}
	return checkLayout(s.bl, s.parent, s.kids, s.fills, s.horiz, fmt.Sprintf("after %v (horizontal=%v extent=%d)", o, s.horiz, s.ext))
}

func boxHistories() {
	var ops []bop
	for _, c := range []child{{1, 0}, {3, 1}, {2, 0.5}, {0, 2}} {
		ops = append(ops, bop{kind: "Add", c: c})
	}
	for _, ix := range []int{-1, 0, 1, 9} {
		ops = append(ops, bop{kind: "Insert", a: ix, c: child{2, 1}})
	}
	for ix := 0; ix < 3; ix++ {
		ops = append(ops, bop{kind: "Remove", a: ix})
	}
	for _, e := range []int{0, 4, 7, 12} {
		ops = append(ops, bop{kind: "Resize", a: e})
	}
	ops = append(ops, bop{kind: "Orient"})
	d := 5
	if hc.Thorough() {
		d = 7
	}
	cfg := &seq.Config{Name: "boxlayout-edits", NOps: len(ops), Depth: d,
		OpName: func(i int) string { return ops[i].String() },
		New: func() seq.Sys {
			s := &bsys{parent: &recView{}, horiz: true, ext: 7, ops: ops}
			s.setParent()
			s.bl = views.NewBoxLayout(views.Horizontal)
			s.bl.SetView(s.parent)
			return s
		},
		Mine: hc.Mine, Shard0: *hc.Shard == 0, ShardDepth: 2, Stop: w.Expired,
		OnViolation: func(sig, desc string, hist []int) {
			var names []string
			for _, o := range hist {
				names = append(names, ops[o].String())
			}
			w.Violation(sig, "boxlayout-edits: "+desc+"\n history: "+strings.Join(names, "; "), map[string]interface{}{"scenario": "boxlayout-edits", "ops": hist})
		},
	}
	st := seq.Explore(cfg)
	w.R.States += st.States
	w.R.Transitions += st.Transitions
	w.R.Executions += st.Transitions
	w.R.Scenarios["boxlayout-edits"] = st.Summary()
	for _, h := range st.SampleHist {
		w.Sample(map[string]interface{}{"scenario": "boxlayout-edits", "history": h})
	}
}

// ---- nested BoxLayout edit histories ----
//
// outer (horizontal) = [A pref 2 fill 0 | inner (vertical) fill 0 | spacer pref 1 fill 1];
// the inner layout is edited (Add / Insert / Remove of leaves) while it is attached and laid
// out; after every edit the outer layout is drawn WITHOUT an outer Resize. Oracles: (1) the
// inner layout must be given at least its preferred width (the widest leaf) when the outer
// extent suffices, (2) differential: what every leaf paints must equal what the same tree
// paints when it is built from scratch and laid out (edits are "re-done" layouts).
type nleaf struct {
	id     rune
	pw, ph int
}

type nsys struct {
	parent *recView
	outer  *views.BoxLayout
	inner  *views.BoxLayout
	a, sp  *recWidget
	leaves []*recWidget
	model  []nleaf
	ext    int
	next   int
	horiz  bool // orientation of the inner layout (it starts vertical)
	ops    []nop
}

type nop struct {
	kind string
	a    int
	pw   int
}

func (o nop) String() string {
	switch o.kind {
	case "Add":
		return fmt.Sprintf("inner.AddWidget(leaf %dx1)", o.pw)
	case "Insert":
		return fmt.Sprintf("inner.InsertWidget(%d, leaf %dx1)", o.a, o.pw)
	case "Remove":
		return fmt.Sprintf("inner.RemoveWidget(#%d)", o.a)
	case "Resize":
		return fmt.Sprintf("parent width -> %d; outer.Resize()", o.a)
	case "Orient":
		return "inner.SetOrientation(toggle)"
	}
	return "outer.Draw()"
}

// nestedThreeLevels: root[mid[in[leaf]], Z(fill 1)] with the five construction steps in every
// order (120 permutations); after two Draws - no explicit Resize - the leaf has its preferred
// width, Z has exactly the surplus, and after the leaf is removed again Z has everything.
func nestedThreeLevels() {
	if *hc.Shard != 0 {
		return
	}
	var perms [][]int
	var rec func(cur []int, used int)
	rec = func(cur []int, used int) {
		if len(cur) == 5 {
			perms = append(perms, append([]int{}, cur...))
			return
		}
		for i := 0; i < 5; i++ {
			if used&(1<<uint(i)) == 0 {
				rec(append(cur, i), used|1<<uint(i))
			}
		}
	}
	rec(nil, 0)
	names := []string{"root.AddWidget(mid,0)", "mid.AddWidget(in,0)", "in.AddWidget(leaf 2x1,0)", "root.SetView(8x5)", "root.AddWidget(Z 1x1,1)"}
	for _, ext := range []int{8, 3} {
		for _, pm := range perms {
			w.R.Evaluations++
			parent := &recView{w: ext, h: 5}
			root, mid, in := views.NewBoxLayout(views.Horizontal), views.NewBoxLayout(views.Horizontal), views.NewBoxLayout(views.Horizontal)
			leaf := &recWidget{id: 'L', pw: 2, ph: 1}
			z := &recWidget{id: 'Z', pw: 1, ph: 1}
			var hist []string
			for _, st := range pm {
				hist = append(hist, names[st])
				switch st {
				case 0:
					root.AddWidget(mid, 0)
				case 1:
					mid.AddWidget(in, 0)
				case 2:
					in.AddWidget(leaf, 0)
				case 3:
					root.SetView(parent)
				case 4:
					root.AddWidget(z, 1)
				}
			}
			count := func() (l, zc int) {
				paint(parent, root)
				got := paint(parent, root)
				lc, zcs := map[int]bool{}, map[int]bool{}
				for p, r := range got {
					if r == 'L' {
						lc[p[0]] = true
					}
					if r == 'Z' {
						zcs[p[0]] = true
					}
				}
				return len(lc), len(zcs)
			}
			l, zc := count()
			if l != 2 || zc != ext-2 {
				w.Violation("box-nested-three-levels", fmt.Sprintf("root[mid[in[leaf]], Z(fill 1)] on a %dx5 view, built as %s, after two Draws: the leaf (preferred width 2) is %d columns wide and Z %d; want 2 and %d", ext, strings.Join(hist, "; "), l, zc, ext-2),
					map[string]interface{}{"order": pm, "ext": ext})
				continue
			}
			in.RemoveWidget(leaf)
			l, zc = count()
			if l != 0 || zc != ext {
				w.Violation("box-nested-three-levels-remove", fmt.Sprintf("root[mid[in[leaf]], Z(fill 1)] on a %dx5 view, built as %s; after in.RemoveWidget(leaf) and two Draws the leaf paints %d columns and Z %d; want 0 and %d", ext, strings.Join(hist, "; "), l, zc, ext),
					map[string]interface{}{"order": pm, "ext": ext})
			}
			w.AddDistinct(1)
		}
	}
}

func buildNested(ext int, model []nleaf, innerHoriz ...bool) (*recView, *views.BoxLayout, *views.BoxLayout, *recWidget, *recWidget, []*recWidget) {
	parent := &recView{w: ext, h: 5}
	outer := views.NewBoxLayout(views.Horizontal)
	outer.SetView(parent)
	a := &recWidget{id: 'A', pw: 2, ph: 1}
	inner := views.NewBoxLayout(views.Vertical)
	if len(innerHoriz) > 0 && innerHoriz[0] {
		inner = views.NewBoxLayout(views.Horizontal)
	}
	sp := &recWidget{id: 'Z', pw: 1, ph: 1}
	outer.AddWidget(a, 0)
	outer.AddWidget(inner, 0)
	outer.AddWidget(sp, 1)
	var leaves []*recWidget
	for _, l := range model {
		rw := &recWidget{id: l.id, pw: l.pw, ph: l.ph}
		inner.AddWidget(rw, 0)
		leaves = append(leaves, rw)
	}
	return parent, outer, inner, a, sp, leaves
}

func paint(parent *recView, outer *views.BoxLayout) map[[2]int]rune {
	parent.writes = parent.writes[:0]
	outer.Draw()
	owner := map[[2]int]rune{}
	for _, wr := range parent.writes {
		if wr.x < 0 || wr.y < 0 || wr.x >= parent.w || wr.y >= parent.h {
			continue
		}
		owner[[2]int{wr.x, wr.y}] = wr.r
	}
	return owner
}

func (s *nsys) Close() {}
func (s *nsys) Key() string {
	var sb strings.Builder
	fmt.Fprintf(&sb, "%d %v|", s.ext, s.horiz)
	for _, l := range s.model {
		fmt.Fprintf(&sb, "%dx%d;", l.pw, l.ph)
	}
	iw, ih := s.inner.Size()
	ow, oh := s.outer.Size()
	fmt.Fprint(&sb, iw, ih, ow, oh)
	for _, k := range s.leaves {
		if vp, ok := k.view.(*views.ViewPort); ok {
			a, b, c, d := vp.GetPhysical()
			fmt.Fprint(&sb, a, b, c, d, ",")
		}
	}
	return sb.String()
}

func (s *nsys) Apply(i int) (sig, desc string) {
	o := s.ops[i]
	defer func() {
		if r := recover(); r != nil {
			sig, desc = "box-nested-panic:"+o.kind, fmt.Sprintf("%v panicked: %v", o, r)
		}
	}()
	switch o.kind {
	case "Add", "Insert":
		if len(s.model) >= 3 {
			return "", ""
		}
		l := nleaf{id: rune('b' + s.next%20), pw: o.pw, ph: 1}
		s.next++
		rw := &recWidget{id: l.id, pw: l.pw, ph: l.ph}
		ix := len(s.model)
		if o.kind == "Add" {
			s.inner.AddWidget(rw, 0)
		} else {
			s.inner.InsertWidget(o.a, rw, 0)
			ix = o.a
			if ix > len(s.model) {
				ix = len(s.model)
			}
		}
		s.model = append(s.model, nleaf{})
		copy(s.model[ix+1:], s.model[ix:])
		s.model[ix] = l
		s.leaves = append(s.leaves, nil)
		copy(s.leaves[ix+1:], s.leaves[ix:])
		s.leaves[ix] = rw
	case "Remove":
		if o.a >= len(s.model) {
			return "", ""
		}
		s.inner.RemoveWidget(s.leaves[o.a])
		s.model = append(s.model[:o.a:o.a], s.model[o.a+1:]...)
		s.leaves = append(s.leaves[:o.a:o.a], s.leaves[o.a+1:]...)
	case "Resize":
		s.ext = o.a
		s.parent.w = o.a
		s.outer.Resize()
	case "Orient":
		s.horiz = !s.horiz
		if s.horiz {
			s.inner.SetOrientation(views.Horizontal)
		} else {
			s.inner.SetOrientation(views.Vertical)
		}
	}
	got := paint(s.parent, s.outer)
	ctx := fmt.Sprintf("after %v (outer width %d, inner leaves %v)", o, s.ext, s.model)
	// (1) preferred extent of the inner layout
	want := 0
	for _, l := range s.model {
		if s.horiz {
			want += l.pw
		} else if l.pw > want {
			want = l.pw
		}
	}
	if 2+want+1 <= s.ext {
		for _, l := range s.model {
			n := 0
			for p, r := range got {
				if r == l.id && p[1] >= 0 {
					n++
				}
			}
			cols := map[int]bool{}
			for p, r := range got {
				if r == l.id {
					cols[p[0]] = true
				}
			}
			if len(cols) < l.pw {
				return "box-nested-preferred", fmt.Sprintf("%s: leaf %c of the inner layout is %d columns wide, its preferred width is %d and the outer layout has room (2+%d+1 <= %d)", ctx, l.id, len(cols), l.pw, want, s.ext)
			}
		}
	}
	// (2) the same tree built from scratch
	fp, fo, _, _, _, _ := buildNested(s.ext, s.model, s.horiz)
	fo.Resize()
	fresh := paint(fp, fo)
	if len(fresh) != len(got) {
		return "box-nested-differs", fmt.Sprintf("%s: %d cells painted, the same tree built from scratch paints %d", ctx, len(got), len(fresh))
	}
	for p, r := range fresh {
		if got[p] != r {
			return "box-nested-differs", fmt.Sprintf("%s: cell (%d,%d) belongs to %q, in the same tree built from scratch to %q", ctx, p[0], p[1], got[p], r)
		}
	}
	return "", ""
}

// nestedBottomUp: the inner layout is populated before it is attached to the outer one (the
// usual way of building a UI); once everything has a view and has been laid out and drawn,
// the inner layout must have its preferred extent when the outer view has room.
func nestedBottomUp() {
	if *hc.Shard != 0 {
		return
	}
	for ext := 6; ext <= 12; ext += 3 {
		for _, n := range []int{1, 2} {
			w.R.Evaluations++
			parent := &recView{w: ext, h: 5}
			inner := views.NewBoxLayout(views.Vertical)
			var model []nleaf
			for i := 0; i < n; i++ {
				l := nleaf{id: rune('b' + i), pw: 3, ph: 1}
				model = append(model, l)
				inner.AddWidget(&recWidget{id: l.id, pw: l.pw, ph: l.ph}, 0)
			}
			outer := views.NewBoxLayout(views.Horizontal)
			outer.AddWidget(&recWidget{id: 'A', pw: 2, ph: 1}, 0)
			outer.AddWidget(inner, 0)
			outer.AddWidget(&recWidget{id: 'Z', pw: 1, ph: 1}, 1)
			outer.SetView(parent)
			outer.Resize()
			paint(parent, outer)
			got := paint(parent, outer)
			for _, l := range model {
				cols := map[int]bool{}
				for p, r := range got {
					if r == l.id {
						cols[p[0]] = true
					}
				}
				if len(cols) < l.pw {
					w.Violation("box-nested-bottomup", fmt.Sprintf("layout built bottom-up (inner layout with %d leaves of width 3 populated before it is attached), outer width %d: after SetView, Resize and two Draws leaf %c is %d columns wide, its preferred width is %d and the outer layout has room", n, ext, l.id, len(cols), l.pw), nil)
				}
			}
			w.AddDistinct(1)
		}
	}
}

func nestedHistories() {
	var ops []nop
	for _, pw := range []int{1, 3, 6} {
		ops = append(ops, nop{kind: "Add", pw: pw})
	}
	ops = append(ops, nop{kind: "Insert", a: 0, pw: 4}, nop{kind: "Insert", a: 1, pw: 2}, nop{kind: "Remove", a: 0}, nop{kind: "Remove", a: 1},
		nop{kind: "Resize", a: 5}, nop{kind: "Resize", a: 12}, nop{kind: "Draw"}, nop{kind: "Orient"})
	d := 5
	if hc.Thorough() {
		d = 8
	}
	cfg := &seq.Config{Name: "boxlayout-nested-edits", NOps: len(ops), Depth: d,
		OpName: func(i int) string { return ops[i].String() },
		New: func() seq.Sys {
			s := &nsys{ext: 12, ops: ops}
			s.parent, s.outer, s.inner, s.a, s.sp, s.leaves = buildNested(12, nil)
			s.outer.Resize()
			paint(s.parent, s.outer)
			return s
		},
		Mine: hc.Mine, Shard0: *hc.Shard == 0, ShardDepth: 2, Stop: w.Expired,
		OnViolation: func(sig, desc string, hist []int) {
			var names []string
			for _, o := range hist {
				names = append(names, ops[o].String())
			}
			w.Violation(sig, "boxlayout-nested-edits: "+desc+"\n history: "+strings.Join(names, "; "), map[string]interface{}{"scenario": "boxlayout-nested-edits", "ops": hist})
		},
	}
	st := seq.Explore(cfg)
	w.R.States += st.States
	w.R.Transitions += st.Transitions
	w.R.Executions += st.Transitions
	w.R.Scenarios["boxlayout-nested-edits"] = st.Summary()
}

func nested() {
	if *hc.Shard != 0 {
		return
	}
	for ext := 0; ext <= 12; ext++ {
		for _, innerFill := range []float64{0, 1} {
			w.R.Evaluations++
			parent := &recView{w: ext, h: 4}
			outer := views.NewBoxLayout(views.Horizontal)
			outer.SetView(parent)
			a := &recWidget{id: 'A', pw: 2, ph: 1}
			inner := views.NewBoxLayout(views.Vertical)
			b := &recWidget{id: 'B', pw: 3, ph: 1}
			c := &recWidget{id: 'C', pw: 1, ph: 2}
			inner.AddWidget(b, 0)
			inner.AddWidget(c, 1)
			d := &recWidget{id: 'D', pw: 1, ph: 1}
			outer.AddWidget(a, 0)
			outer.AddWidget(inner, innerFill)
			outer.AddWidget(d, 1)
			outer.Resize()
			parent.writes = parent.writes[:0]
			outer.Draw()
			owner := map[[2]int]rune{}
			for _, wr := range parent.writes {
				if wr.x < 0 || wr.y < 0 || wr.x >= parent.w || wr.y >= parent.h {
					if wr.r != ' ' {
						w.Violation("box-nested-outside", fmt.Sprintf("nested layout, extent %d: %c wrote (%d,%d) outside the %dx%d view", ext, wr.r, wr.x, wr.y, parent.w, parent.h), nil)
					}
					continue
				}
				owner[[2]int{wr.x, wr.y}] = wr.r
			}
			// rectangles per recorder must be disjoint by construction of owner; check shape and order
			bounds := map[rune][4]int{}
			for p, r := range owner {
				if r == ' ' {
					continue
				}
				bb, ok := bounds[r]
				if !ok {
					bb = [4]int{p[0], p[1], p[0], p[1]}
				}
				if p[0] < bb[0] {
					bb[0] = p[0]
				}
				if p[1] < bb[1] {
					bb[1] = p[1]
				}
				if p[0] > bb[2] {
					bb[2] = p[0]
				}
				if p[1] > bb[3] {
					bb[3] = p[1]
				}
				bounds[r] = bb
			}
			for r, bb := range bounds {
				for y := bb[1]; y <= bb[3]; y++ {
					for x := bb[0]; x <= bb[2]; x++ {
						if owner[[2]int{x, y}] != r {
							w.Violation("box-nested-overlap", fmt.Sprintf("nested layout, extent %d, inner fill %v: the region of %c is not a rectangle of its own: cell (%d,%d) shows %q", ext, innerFill, r, x, y, owner[[2]int{x, y}]), nil)
						}
					}
				}
			}
			if ba, ok := bounds['A']; ok {
				if bb, ok2 := bounds['B']; ok2 && bb[0] <= ba[2] {
					w.Violation("box-nested-order", fmt.Sprintf("nested layout, extent %d: inner child B starts at column %d, not after A (ends %d)", ext, bb[0], ba[2]), nil)
				}
			}
		}
	}
}

func main() {
	w = hc.Start("C20")
	w.R.Rule = "ViewPort: BFS to depth 3 (thorough 4), states merged on the full reported geometry, over 82 operations (Resize, SetContentSize locked/growing, SetSize, Scroll* by -1/0/1/3/100, Center, MakeVisible, SetContent) on parents 5x5, 3x2 and 0x0; after every operation all 100 content cells -1..8^2 are drawn through a copy of the viewport and every parent write must be the translated cell inside the viewport rectangle (and none for clipped cells), Fill covers exactly the rectangle, and the adjusted offsets equal the clamped value. BoxLayout: every child list of length 1..4 over preferred {0,1,3} x fill {0,0.5,1,2} x extent 0..12 x both orientations (thorough: all length-5 lists and length-8 lists over a reduced alphabet), BFS over Add/Insert/Remove/Resize/SetOrientation histories to depth 4 (5), one nested layout; recording children draw their whole view plus one cell beyond each edge and the parent checks order, disjointness, containment, preferred extents and exact proportional surplus. distinct_nontrivial = layouts and viewport states checked"
	w.R.Assumptions = []string{"the viewport's geometry is read through GetVisible/GetPhysical/GetContentSize; writes are checked against that geometry and the geometry against the limits", "fill factors are non-negative (as the statement says)"}
	if *hc.Replay != "" {
		fmt.Println("replay: history is listed in the replay file; re-run ./vc C20 --only <scenario>")
		return
	}
	viewports()
	boxStatic()
	boxHistories()
	nested()
	nestedHistories()
	nestedBottomUp()
	nestedThreeLevels()
	for i := int64(0); i < w.R.States; i++ {
		w.Distinct(uint64(*hc.Shard)<<40 | uint64(i))
	}
	w.Finish()
}
