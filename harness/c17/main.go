// C17 — legacy charsets: output valid in the locale encoding, with faithful fallbacks.
// Engine C for the rune sweep (every BMP rune x charset x terminal class x content kind),
// Engine A for fallback-registration histories; the reference terminal decodes the bytes in
// the same charset, with the alternate character set mapped per the entry's acsc pairs.
package main

import (
	"bytes"
	"fmt"
	"os"
	"sort"
	"strings"
	"unicode"
	"unicode/utf8"

	"github.com/gdamore/tcell/v2"
	"github.com/gdamore/tcell/v2/terminfo"
	runewidth "github.com/mattn/go-runewidth"
	xenc "golang.org/x/text/encoding"

	"verif/harness/common"
	"verif/hc"
	"verif/ref/shadow"
	"verif/ref/vt"
	"verif/seq"
)

var w *hc.W

var charsets = []struct{ name, locale string }{
	{"UTF-8", "en_US.UTF-8"}, {"US-ASCII", "C"}, {"ISO8859-1", "en_US.ISO8859-1"}, {"ISO8859-2", "pl_PL.ISO8859-2"}, {"ISO8859-3", "x.ISO8859-3"},
	{"ISO8859-4", "x.ISO8859-4"}, {"ISO8859-5", "x.ISO8859-5"}, {"ISO8859-6", "x.ISO8859-6"}, {"ISO8859-7", "x.ISO8859-7"}, {"ISO8859-8", "x.ISO8859-8"},
	{"ISO8859-9", "x.ISO8859-9"}, {"ISO8859-10", "x.ISO8859-10"}, {"ISO8859-13", "x.ISO8859-13"}, {"ISO8859-14", "x.ISO8859-14"}, {"ISO8859-15", "x.ISO8859-15"},
	{"ISO8859-16", "x.ISO8859-16"}, {"KOI8-R", "ru_RU.KOI8-R"}, {"KOI8-U", "uk_UA.KOI8-U"}, {"EUC-JP", "ja_JP.EUC-JP"}, {"SHIFT_JIS", "ja_JP.SHIFT_JIS"},
	{"EUC-KR", "ko_KR.EUC-KR"}, {"GB18030", "zh_CN.GB18030"}, {"GBK", "zh_CN.GBK"}, {"Big5", "zh_TW.Big5"},
	{"GB2312", "zh_CN.GB2312"}, // the locale's GB2312 is the EUC form of GB 2312-80 (common.EUCCN), whatever codec is registered under the name
}

// encodable: r round-trips through the charset's codec (the codec defines the charset).
func encodable(enc xenc.Encoding, r rune) bool {
	if enc == nil {
		return utf8.ValidRune(r)
	}
	var src [4]byte
	n := utf8.EncodeRune(src[:], r)
	dst := make([]byte, 8)
	nd, ns, err := enc.NewEncoder().Transform(dst, src[:n], true)
	if err != nil || ns != n || nd == 0 || (dst[0] == 0x1a && r != 0x1a) {
		return false
	}
	back := make([]byte, 8)
	nb, nsrc, err := enc.NewDecoder().Transform(back, dst[:nd], true)
	if err != nil || nsrc != nd {
		return false
	}
	rr, sz := utf8.DecodeRune(back[:nb])
	return rr == r && sz == nb
}

// asymmetric: the charset's encoder accepts r but decoding its output gives another rune
// (x/text GB18030 private-use mappings): the codec does not define the charset consistently
// there, so such runes are left out.
func asymmetric(enc xenc.Encoding, r rune) bool {
	if enc == nil {
		return false
	}
	if enc == common.EUCCN && common.EUCCNAmbiguous(r) {
		return true // GB 2312-80 proper and the GBK table differ there
	}
	var src [4]byte
	n := utf8.EncodeRune(src[:], r)
	dst := make([]byte, 8)
	nd, ns, err := enc.NewEncoder().Transform(dst, src[:n], true)
	if err != nil || ns != n || nd == 0 || dst[0] == 0x1a {
		return false
	}
	return !encodable(enc, r)
}

var acsNames = map[byte]rune{'+': tcell.RuneRArrow, ',': tcell.RuneLArrow, '-': tcell.RuneUArrow, '.': tcell.RuneDArrow, '0': tcell.RuneBlock,
	'`': tcell.RuneDiamond, 'a': tcell.RuneCkBoard, 'f': tcell.RuneDegree, 'g': tcell.RunePlMinus, 'h': tcell.RuneBoard, 'i': tcell.RuneLantern,
	'j': tcell.RuneLRCorner, 'k': tcell.RuneURCorner, 'l': tcell.RuneULCorner, 'm': tcell.RuneLLCorner, 'n': tcell.RunePlus, 'o': tcell.RuneS1,
	'p': tcell.RuneS3, 'q': tcell.RuneHLine, 'r': tcell.RuneS7, 's': tcell.RuneS9, 't': tcell.RuneLTee, 'u': tcell.RuneRTee, 'v': tcell.RuneBTee,
	'w': tcell.RuneTTee, 'x': tcell.RuneVLine, 'y': tcell.RuneLEqual, 'z': tcell.RuneGEqual, '{': tcell.RunePi, '|': tcell.RuneNEqual,
	'}': tcell.RuneSterling, '~': tcell.RuneBullet,
	// the four positions terminfo(5) leaves unnamed, as the VT100's special graphics set has
	// them (VT100 User Guide, table 3-9): 0142 HT, 0143 FF, 0144 CR, 0145 LF
	'b': 0x2409, 'c': 0x240c, 'd': 0x240d, 'e': 0x240a}

// acs returns byte->glyph (for the terminal) and the glyph set (what the description offers).
func acs(ti *terminfo.Terminfo) (map[byte]rune, map[rune]bool) {
	m, set := map[byte]rune{}, map[rune]bool{}
	if ti.EnterAcs == "" {
		return m, set
	}
	a := ti.AltChars
	for i := 0; i+1 < len(a); i += 2 {
		if g, ok := acsNames[a[i]]; ok {
			m[a[i+1]] = g
			set[g] = true
		}
	}
	return m, set
}

type rig struct {
	ti      *terminfo.Terminfo
	cs      string
	enc     xenc.Encoding
	tty     *common.FakeTty
	term    *vt.Term
	s       tcell.Screen
	glyphs  map[rune]bool
	rep     map[rune]byte // ACS byte that draws the glyph
	fb      map[rune]string
	errSeen int
}

func newRig(ti *terminfo.Terminfo, cs, locale string, wd, ht int) *rig {
	os.Setenv("LC_ALL", locale)
	os.Unsetenv("LC_CTYPE")
	os.Unsetenv("LANG")
	r, got := newRigEnv(ti, cs, wd, ht)
	if !strings.EqualFold(got, cs) {
		panic(fmt.Sprintf("locale %s selected charset %s, want %s", locale, got, cs))
	}
	return r
}

// newRigEnv builds the rig for the charset cs under whatever locale variables are set now and
// returns what the screen reports as its character set.
func newRigEnv(ti *terminfo.Terminfo, cs string, wd, ht int) (*rig, string) {
	os.Setenv("TCELL_TRUECOLOR", "disable")
	r := &rig{ti: ti, cs: cs, fb: map[rune]string{}}
	if cs != "UTF-8" {
		r.enc = common.RefCodec(cs, tcell.GetEncoding(cs))
	}
	m, set := acs(ti)
	r.glyphs = set
	r.rep = map[rune]byte{}
	if ti.EnterAcs != "" {
		a := ti.AltChars
		for i := 0; i+1 < len(a); i += 2 {
			if g, ok := acsNames[a[i]]; ok {
				r.rep[g] = a[i+1]
			}
		}
	}
	q := vt.Quirks{AcsMap: m, AltFont: ti.EnterAcs == "\x1b[11m" || ti.EnterAcs == "\x1b[12m", FFClears: strings.HasPrefix(ti.Name, "sun"), NoAutoWrap: !ti.AutoMargin}
	r.term = vt.New(wd, ht, r.enc, q)
	r.tty = common.NewFakeTty(r.term, wd, ht)
	c := *ti
	s, err := tcell.NewTerminfoScreenFromTtyTerminfo(r.tty, &c)
	if err != nil {
		panic(err)
	}
	if err := s.Init(); err != nil {
		panic(fmt.Sprint(cs, err))
	}
	r.s = s
	for k, v := range tcell.RuneFallbacks {
		r.fb[k] = v
	}
	return r, s.CharacterSet()
}

// expect says what a cell holding rune x (alone) must display: the characters in order.
func (r *rig) expect(x rune) (chars []rune, canPlain, canFB bool) {
	wd := runewidth.RuneWidth(x)
	if wd == 0 || x < ' ' || shadow.Invisible(x) {
		return []rune{' '}, false, false // blanked; CanDisplay of such runes is not constrained here
	}
	pad := func(s []rune) []rune {
		n := 0
		for _, c := range s {
			n += runewidth.RuneWidth(c)
		}
		for n < wd {
			s = append(s, ' ')
			n++
		}
		return s
	}
	if encodable(r.enc, x) {
		return []rune{x}, true, true
	}
	if r.glyphs[x] {
		return []rune{x}, true, true
	}
	if f, ok := r.fb[x]; ok {
		return pad([]rune(f)), false, true
	}
	return pad([]rune{'?'}), false, false
}

func (r *rig) rowText(y int) []rune {
	var out []rune
	for x := 0; x < r.term.W; x++ {
		c := r.term.At(x, y)
		if c.Wide == 0 {
			continue
		}
		out = append(out, c.R)
		out = append(out, []rune(c.Comb)...)
	}
	return out
}

func (r *rig) health(ctx string) (string, string) {
	if len(r.term.Errors) > r.errSeen {
		e := r.term.Errors[r.errSeen]
		r.errSeen = len(r.term.Errors)
		return "invalid-output:" + r.cs, fmt.Sprintf("%s: the output is not valid in the %s locale: %s", ctx, r.cs, e)
	}
	if r.term.InString() {
		return "invalid-output:" + r.cs, fmt.Sprintf("%s: output ends inside a sequence or multi-byte character", ctx)
	}
	if r.term.Scrolled > 0 {
		r.term.Scrolled = 0
		return "scrolled:" + r.cs, fmt.Sprintf("%s: the output made the terminal scroll", ctx)
	}
	return "", ""
}

func same(a, b []rune) bool { return string(a) == string(b) }

// sameGlyphs: equal up to glyphs the terminal draws with the same ACS byte (ansi maps
// scan lines 3, 5 and 7 to one CP437 byte: the description says they look alike there).
func (r *rig) sameGlyphs(a, b []rune) bool {
	if len(a) != len(b) {
		return false
	}
	for i := range a {
		if a[i] != b[i] && !(r.rep[a[i]] != 0 && r.rep[a[i]] == r.rep[b[i]]) {
			return false
		}
	}
	return true
}

func termClass(ti *terminfo.Terminfo) string {
	switch {
	case ti.EnterAcs == "":
		return "no-acs"
	case ti.EnterAcs == "\x1b[11m" || ti.EnterAcs == "\x1b[12m":
		return "cp437-acs"
	case ti.EnterAcs == "\x0e":
		return "dec-acs-so"
	}
	return "dec-acs-esc"
}

func sweep(entries []common.Entry) {
	want := map[string]bool{"xterm-256color": true, "vt100": true, "ansi": true, "sun": true}
	item := 0
	for _, e := range entries {
		if !want[e.Name] {
			continue
		}
		for _, cs := range charsets {
			item++
			if !hc.Mine(item) {
				continue
			}
			if w.Expired() {
				return
			}
			r := newRig(e.Ti, cs.name, cs.locale, 6, 1)
			cls := termClass(e.Ti)
			r.s.Show()
			// control characters are never shown as themselves (a cell holding one is a blank)
			// and no fallback is registered for them: CanDisplay is false either way
			var never []rune
			for cr := rune(0); cr < 0xa0; cr++ {
				if cr < 0x20 || cr >= 0x7f {
					never = append(never, cr)
				}
			}
			// neither are code points that are no characters at all: surrogates, noncharacters,
			// values beyond U+10FFFF or below zero
			never = append(never, 0xd800, 0xdbff, 0xdfff, 0xfdd0, 0xfdef, 0xfffe, 0xffff, 0x1fffe, 0x10ffff, 0x110000, -1)
			for _, cr := range never {
				w.R.Evaluations++
				if r.s.CanDisplay(cr, false) || r.s.CanDisplay(cr, true) {
					w.Violation("candisplay-control:"+cls+":"+cs.name, fmt.Sprintf("%s (%s), charset %s: CanDisplay(U+%04X) = (%v,%v), but a cell holding this control character or non-character is shown as a blank, never as the rune or a substitute", e.Name, cls, cs.name, cr, r.s.CanDisplay(cr, false), r.s.CanDisplay(cr, true)),
						map[string]interface{}{"entry": e.Name, "charset": cs.name, "rune": cr})
					break
				}
			}
			n := 0
			max := rune(0xffff)
			for x := rune(0x20); x <= max+64; x++ {
				rr := x
				if x > max {
					rr = 0x1f300 + (x-max)*37
				}
				if (rr >= 0xd800 && rr <= 0xdfff) || rr == 0xfffd {
					continue
				}
				if asymmetric(r.enc, rr) {
					w.Count("codec_asymmetric_runes_skipped", 1)
					continue
				}
				n++
				wd := runewidth.RuneWidth(rr)
				if shadow.Invisible(rr) {
					wd = 0 // format characters and non-spacing marks take no cell of their own
				}
				chars, canPlain, canFB := r.expect(rr)
				// narrow/wide content at column 0, and as a combining rune after 'a' at column 3
				r.s.SetContent(0, 0, rr, nil, tcell.StyleDefault)
				r.s.SetContent(1, 0, ' ', nil, tcell.StyleDefault)
				nonchar := (rr >= 0xfdd0 && rr <= 0xfdef) || rr&0xfffe == 0xfffe
				isMark := wd == 0 && rr >= 0xa0 && !nonchar // combining lists are limited to zero-width non-control marks
				// ... and runes the charset cannot represent: as combining content they are
				// elided, whatever else was drawn with the same rune before
				elided := !isMark && rr >= 0xa0 && !encodable(r.enc, rr)
				if isMark || elided {
					r.s.SetContent(3, 0, 'a', []rune{rr}, tcell.StyleDefault)
				} else {
					r.s.SetContent(3, 0, 'a', nil, tcell.StyleDefault)
				}
				r.s.Sync()
				ctx := fmt.Sprintf("%s (%s), charset %s, rune U+%04X", e.Name, cls, cs.name, rr)
				if sig, d := r.health(ctx); sig != "" {
					w.Violation(sig+":"+cls, d, map[string]interface{}{"entry": e.Name, "charset": cs.name, "rune": rr})
					continue
				}
				row := r.rowText(0)
				// columns 0.. hold chars (padded to the rune's width), then blanks
				exp := append([]rune{}, chars...)
				for k := len(exp); k < 2; k++ {
					exp = append(exp, ' ')
				}
				if wd == 2 && len(chars) == 1 && runewidth.RuneWidth(chars[0]) == 2 {
					exp = []rune{chars[0]} // wide glyph covers columns 0-1
				}
				gotHead := row
				if len(gotHead) > len(exp) {
					gotHead = row[:len(exp)]
				}
				if !r.sameGlyphs(gotHead, exp) {
					kind := "unencodable"
					switch {
					case canPlain && encodable(r.enc, rr):
						kind = "encodable"
					case canPlain:
						kind = "acs"
					case canFB:
						kind = "fallback"
					}
					w.Violation("glyph:"+kind+":"+cls+":"+cs.name, fmt.Sprintf("%s as cell content: the terminal shows %q, want %q (%s)", ctx, string(gotHead), string(exp), kind),
						map[string]interface{}{"entry": e.Name, "charset": cs.name, "rune": rr})
				}
				// combining position: 'a' followed by the rune only if it is a zero-width mark the charset can encode
				c3 := r.term.At(3, 0)
				wantComb := ""
				if isMark && encodable(r.enc, rr) {
					wantComb = string(rr)
				}
				if c3.R != 'a' || c3.Comb != wantComb {
					w.Violation("combining:"+cls+":"+cs.name, fmt.Sprintf("%s as combining rune after 'a': the terminal shows %q+%+q, want 'a'+%+q", ctx, c3.R, c3.Comb, wantComb),
						map[string]interface{}{"entry": e.Name, "charset": cs.name, "rune": rr})
				}
				if wd > 0 {
					if got := r.s.CanDisplay(rr, false); got != canPlain {
						w.Violation("candisplay:"+cls+":"+cs.name, fmt.Sprintf("%s: CanDisplay(r,false) = %v, but the rune is shown as %q (plain or ACS: %v)", ctx, got, string(chars), canPlain), map[string]interface{}{"entry": e.Name, "charset": cs.name, "rune": rr})
					}
					if got := r.s.CanDisplay(rr, true); got != canFB {
						w.Violation("candisplay-fb:"+cls+":"+cs.name, fmt.Sprintf("%s: CanDisplay(r,true) = %v, but the rune is shown as %q (plain, ACS or fallback: %v)", ctx, got, string(chars), canFB), map[string]interface{}{"entry": e.Name, "charset": cs.name, "rune": rr})
					}
				}
				if !canPlain || wd != 1 {
					w.AddDistinct(1)
				}
			}
			w.R.Evaluations += int64(n)
			r.s.Fini()
		}
	}
	w.Sample(map[string]interface{}{"sweep": "xterm-256color / ISO8859-1 / U+2500 (RuneHLine)", "expect": "ESC(0 q ESC(B -> the terminal shows U+2500; CanDisplay(r,false)=true"})
}

// envShapes: the character set is selected by the locale variables as POSIX orders them: the
// first of LC_ALL, LC_CTYPE, LANG that is set to a NON-EMPTY value decides (an empty value
// counts as unset); "C"/"POSIX" mean US-ASCII, a codeset after '.' (modifier after '@'
// dropped) names the charset, no codeset means UTF-8. Every combination of 8 values for the
// three variables; the screen must report that charset and draw a Cyrillic letter
// accordingly (its byte in that charset, or '?').
func envShapes(entries []common.Entry) {
	var ti *terminfo.Terminfo
	for _, e := range entries {
		if e.Name == "xterm-256color" {
			ti = e.Ti
		}
	}
	vals := []string{"<unset>", "", "C", "POSIX", "en_US.UTF-8", "ru_RU.KOI8-R", "de_DE.ISO8859-1@euro", "en_US"}
	vars := []string{"LC_ALL", "LC_CTYPE", "LANG"}
	csOf := func(v string) string {
		if v == "C" || v == "POSIX" {
			return "US-ASCII"
		}
		if i := strings.IndexByte(v, '@'); i >= 0 {
			v = v[:i]
		}
		if i := strings.IndexByte(v, '.'); i >= 0 {
			return v[i+1:]
		}
		return "UTF-8"
	}
	item := 9000
	for a := range vals {
		for b := range vals {
			for c := range vals {
				item++
				if !hc.Mine(item) {
					continue
				}
				w.R.Evaluations++
				pick := []int{a, b, c}
				want := "UTF-8"
				var desc []string
				decided := false
				for i, name := range vars {
					v := vals[pick[i]]
					if v == "<unset>" {
						os.Unsetenv(name)
						desc = append(desc, name+" unset")
						continue
					}
					os.Setenv(name, v)
					desc = append(desc, fmt.Sprintf("%s=%q", name, v))
					if !decided && v != "" {
						want = csOf(v)
						decided = true
					}
				}
				r, got := newRigEnv(ti, want, 4, 1)
				ctx := strings.Join(desc, " ")
				if !strings.EqualFold(got, want) {
					w.Violation("locale-charset:"+want, fmt.Sprintf("%s: the screen uses character set %s, the locale selects %s", ctx, got, want), map[string]interface{}{"env": desc})
				} else {
					r.s.SetContent(0, 0, 0x0416, nil, tcell.StyleDefault)
					r.s.Show()
					chars, _, _ := r.expect(0x0416)
					if sig, d := r.health(ctx); sig != "" {
						w.Violation("locale-draw:"+sig, d, map[string]interface{}{"env": desc})
					} else if c0 := r.term.At(0, 0); c0.R != chars[0] {
						w.Violation("locale-draw:"+want, fmt.Sprintf("%s (charset %s): U+0416 is shown as %q, want %q", ctx, want, c0.R, chars[0]), map[string]interface{}{"env": desc})
					}
				}
				r.s.Fini()
				w.AddDistinct(1)
			}
		}
	}
	for _, name := range vars {
		os.Unsetenv(name)
	}
}

// spellings: the usual spellings of the ISO 8859 parts in locale names (ISO8859-n, ISO-8859-n,
// 8859-n) select the same character set: the screen comes up and writes a letter of the upper
// half as the same byte.
func spellings(entries []common.Entry) {
	if *hc.Shard != 0 {
		return
	}
	var ti *terminfo.Terminfo
	for _, e := range entries {
		if e.Name == "xterm-256color" {
			ti = e.Ti
		}
	}
	for _, part := range []int{1, 2, 3, 4, 5, 6, 7, 8, 9, 10, 13, 14, 15, 16} {
		canon := fmt.Sprintf("ISO8859-%d", part)
		enc := tcell.GetEncoding(canon)
		if enc == nil {
			continue
		}
		// a letter of the upper half of this part
		var probe rune
		var pb byte
		for b := 0xf1; b >= 0xa1 && probe == 0; b-- {
			out, err := enc.NewDecoder().Bytes([]byte{byte(b)})
			if r, _ := utf8.DecodeRune(out); err == nil && r != utf8.RuneError && r >= 0xa0 && unicode.IsLetter(r) {
				probe, pb = r, byte(b)
			}
		}
		for _, sp := range []string{canon, fmt.Sprintf("ISO-8859-%d", part), fmt.Sprintf("8859-%d", part)} {
			w.R.Evaluations++
			w.AddDistinct(1)
			os.Setenv("LC_ALL", "xx_XX."+sp)
			os.Unsetenv("LC_CTYPE")
			os.Unsetenv("LANG")
			tty := common.NewFakeTty(vt.New(4, 1, enc, vt.Quirks{}), 4, 1)
			c := *ti
			s, err := tcell.NewTerminfoScreenFromTtyTerminfo(tty, &c)
			if err == nil {
				err = s.Init()
			}
			if err != nil {
				w.Violation("locale-spelling:"+sp, fmt.Sprintf("LC_ALL=xx_XX.%s: the screen does not come up (%v), although xx_XX.%s does and names the same character set", sp, err, canon), map[string]interface{}{"locale": "xx_XX." + sp})
				continue
			}
			s.SetContent(0, 0, probe, nil, tcell.StyleDefault)
			s.Show()
			if !bytes.Contains(bytes.Join(tty.Blocks, nil), []byte{pb}) || bytes.Contains(bytes.Join(tty.Blocks, nil), []byte(string(probe))) {
				w.Violation("locale-spelling:"+sp, fmt.Sprintf("LC_ALL=xx_XX.%s: U+%04X is not written as the byte %#x of %s (output %q)", sp, probe, pb, canon, bytes.Join(tty.Blocks, nil)), map[string]interface{}{"locale": "xx_XX." + sp})
			}
			s.Fini()
		}
	}
	os.Unsetenv("LC_ALL")
}

// acsAll: every database entry (not only the four class representatives) x three single-byte
// charsets x every rune with a DEC special-graphics identity: the cell must show that glyph
// if the description offers it (else fallback / '?'), nothing else may appear on the row, and
// the byte stream must be well-formed (padding specifications are not text).
func acsAll(entries []common.Entry) {
	var runes []rune
	for _, g := range acsNames {
		runes = append(runes, g)
	}
	sort.Slice(runes, func(i, j int) bool { return runes[i] < runes[j] })
	css := [][2]string{{"US-ASCII", "C"}, {"ISO8859-1", "en_US.ISO8859-1"}, {"KOI8-R", "ru_RU.KOI8-R"}}
	item := 1000
	// a description that offers the whole VT100 set (as linux-m2 or putty-m2 in the system
	// database do): the built-in vt100 with the unnamed positions added
	for _, e := range entries {
		if e.Name == "vt100" {
			c := *e.Ti
			c.Name, c.Aliases = "vt100+full-graphics", nil
			c.AltChars += "bbccddeehhii"
			entries = append(append([]common.Entry{}, entries...), common.Entry{Name: c.Name, Names: []string{c.Name}, Ti: &c})
			break
		}
	}
	for _, e := range entries {
		if !strings.HasPrefix(e.Ti.SetCursor, "\x1b[%i%p1%d;%p2%dH") {
			continue // the reference terminal decodes the ECMA-48 family only
		}
		for _, cs := range css {
			for _, altscreen := range []string{"", "disable"} {
				item++
				if !hc.Mine(item) {
					continue
				}
				if w.Expired() {
					return
				}
				// the alternate character set must work wherever the screen lives (the charset
				// designation is not a property of the alternate screen buffer)
				if altscreen == "" {
					os.Unsetenv("TCELL_ALTSCREEN")
				} else {
					os.Setenv("TCELL_ALTSCREEN", altscreen)
				}
				r := newRig(e.Ti, cs[0], cs[1], 6, 1)
				os.Unsetenv("TCELL_ALTSCREEN")
				cls := termClass(e.Ti)
				if altscreen != "" {
					cls += ":altscreen-" + altscreen
				}
				r.s.Show()
				for _, g := range runes {
					if asymmetric(r.enc, g) {
						continue
					}
					w.R.Evaluations++
					chars, canPlain, _ := r.expect(g)
					r.s.SetContent(0, 0, 'x', nil, tcell.StyleDefault)
					r.s.SetContent(1, 0, g, nil, tcell.StyleDefault)
					r.s.SetContent(2, 0, ' ', nil, tcell.StyleDefault)
					r.s.SetContent(3, 0, ' ', nil, tcell.StyleDefault)
					r.s.SetContent(4, 0, 'y', nil, tcell.StyleDefault)
					r.s.Sync()
					ctx := fmt.Sprintf("%s (%s), charset %s, ACS rune U+%04X", e.Name, cls, cs[0], g)
					if sig, d := r.health(ctx); sig != "" {
						w.Violation("acs-all:"+sig+":"+e.Name, d, map[string]interface{}{"entry": e.Name, "charset": cs[0], "rune": g})
						continue
					}
					exp := append([]rune{'x'}, chars...)
					for len(exp) < 4 {
						exp = append(exp, ' ')
					}
					exp = append(exp, 'y', ' ')
					row := r.rowText(0)
					if !r.sameGlyphs(row, exp) {
						w.Violation("acs-all:row:"+e.Name+":"+cs[0], fmt.Sprintf("%s: the terminal row shows %q, want %q", ctx, string(row), string(exp)), map[string]interface{}{"entry": e.Name, "charset": cs[0], "rune": g})
					}
					if got := r.s.CanDisplay(g, false); got != canPlain {
						w.Violation("acs-all:candisplay:"+e.Name+":"+cs[0], fmt.Sprintf("%s: CanDisplay(r,false) = %v, want %v", ctx, got, canPlain), map[string]interface{}{"entry": e.Name, "charset": cs[0], "rune": g})
					}
					w.AddDistinct(1)
				}
				r.s.Fini()
			}
		}
	}
}

// isolation: rune fallbacks registered or removed on one screen are that screen's own; a
// second screen (no ACS: the fallback table decides) and the package-level table keep the
// built-in rules, whatever the order of creation.
func isolation(entries []common.Entry) {
	if *hc.Shard != 0 {
		return
	}
	var sun *terminfo.Terminfo
	for _, e := range entries {
		if e.Name == "sun" {
			sun = e.Ti
		}
	}
	if sun == nil {
		return
	}
	nDefaults := len(tcell.RuneFallbacks)
	ul := tcell.RuneFallbacks[tcell.RuneULCorner]
	type fop struct {
		name string
		do   func(s tcell.Screen)
	}
	fops := []fop{
		{"Unregister(RuneULCorner)", func(s tcell.Screen) { s.UnregisterRuneFallback(tcell.RuneULCorner) }},
		{"Register(RuneULCorner,#)", func(s tcell.Screen) { s.RegisterRuneFallback(tcell.RuneULCorner, "#") }},
		{"Register(U+0416,Z)", func(s tcell.Screen) { s.RegisterRuneFallback(0x0416, "Z") }},
	}
	for mask := 1; mask < 1<<uint(len(fops)); mask++ {
		for _, bFirst := range []bool{true, false} {
			w.R.Evaluations++
			var b *rig
			if bFirst {
				b = newRig(sun, "US-ASCII", "C", 4, 1)
			}
			a := newRig(sun, "US-ASCII", "C", 4, 1)
			var names []string
			for i, f := range fops {
				if mask&(1<<uint(i)) != 0 {
					f.do(a.s)
					names = append(names, f.name)
				}
			}
			if !bFirst {
				b = newRig(sun, "US-ASCII", "C", 4, 1)
			}
			b.s.SetContent(0, 0, tcell.RuneULCorner, nil, tcell.StyleDefault)
			b.s.SetContent(1, 0, 0x0416, nil, tcell.StyleDefault)
			b.s.Show()
			got := string([]rune{b.term.At(0, 0).R, b.term.At(1, 0).R})
			if got != ul+"?" {
				w.Violation("fallback-shared", fmt.Sprintf("after %v on one screen, another screen (created %s) shows U+250C, U+0416 as %q, want %q", names, map[bool]string{true: "before", false: "after"}[bFirst], got, ul+"?"), nil)
			}
			if len(tcell.RuneFallbacks) != nDefaults || tcell.RuneFallbacks[tcell.RuneULCorner] != ul {
				w.Violation("fallback-global", fmt.Sprintf("after %v on a screen the package-level RuneFallbacks table changed", names), nil)
				tcell.RuneFallbacks[tcell.RuneULCorner] = ul
				delete(tcell.RuneFallbacks, 0x0416)
			}
			a.s.Fini()
			b.s.Fini()
			w.AddDistinct(1)
		}
	}
}

// ---- fallback registration histories ----

type hop struct {
	kind string
	r    rune
	s    string
}

func (o hop) String() string {
	switch o.kind {
	case "reg":
		return fmt.Sprintf("RegisterRuneFallback(U+%04X,%q)", o.r, o.s)
	case "unreg":
		return fmt.Sprintf("UnregisterRuneFallback(U+%04X)", o.r)
	case "set":
		return fmt.Sprintf("SetContent(0,0,U+%04X)", o.r)
	}
	return "Sync()"
}

type hsys struct {
	r   *rig
	ops []hop
	cur rune
}

func (s *hsys) Close() { s.r.s.Fini() }
func (s *hsys) Key() string {
	var fb []string
	for k, v := range s.r.fb {
		if tcell.RuneFallbacks[k] != v {
			fb = append(fb, fmt.Sprintf("%d=%s", k, v))
		}
	}
	for k := range tcell.RuneFallbacks {
		if _, ok := s.r.fb[k]; !ok {
			fb = append(fb, fmt.Sprintf("-%d", k))
		}
	}
	sort.Strings(fb)
	return tcell.VerifScreenDump(s.r.s) + fmt.Sprint(s.cur, string(s.r.rowText(0)), fb)
}
func (s *hsys) Apply(i int) (string, string) {
	o := s.ops[i]
	r := s.r
	switch o.kind {
	case "reg":
		r.s.RegisterRuneFallback(o.r, o.s)
		r.fb[o.r] = o.s
	case "unreg":
		r.s.UnregisterRuneFallback(o.r)
		delete(r.fb, o.r)
	case "set":
		r.s.SetContent(0, 0, o.r, nil, tcell.StyleDefault)
		s.cur = o.r
	case "sync":
		r.s.Sync()
		if sig, d := r.health("after Sync"); sig != "" {
			return sig, d
		}
		if s.cur != 0 {
			chars, canPlain, canFB := r.expect(s.cur)
			row := r.rowText(0)
			if len(row) < len(chars) || !r.sameGlyphs(row[:len(chars)], chars) {
				return "fallback-history", fmt.Sprintf("cell holds U+%04X, fallbacks registered %v: the terminal shows %q, want %q", s.cur, fbList(r.fb), string(row), string(chars))
			}
			if r.s.CanDisplay(s.cur, false) != canPlain || r.s.CanDisplay(s.cur, true) != canFB {
				return "fallback-candisplay", fmt.Sprintf("cell holds U+%04X: CanDisplay = (%v,%v), want (%v,%v)", s.cur, r.s.CanDisplay(s.cur, false), r.s.CanDisplay(s.cur, true), canPlain, canFB)
			}
		}
	}
	return "", ""
}

func fbList(m map[rune]string) string {
	var s []string
	for k, v := range m {
		if tcell.RuneFallbacks[k] != v {
			s = append(s, fmt.Sprintf("U+%04X=%q", k, v))
		}
	}
	return strings.Join(s, ",")
}

func histories(entries []common.Entry) {
	if *hc.Shard != 0 {
		return
	}
	runes := []rune{tcell.RuneHLine, 0x2603, 0xe9, 0x4e16}
	var ops []hop
	for _, x := range runes {
		fb1, fb2 := "+", "x"
		if runewidth.RuneWidth(x) == 2 {
			fb1, fb2 = "ab", "[]"
		}
		ops = append(ops, hop{"reg", x, fb1}, hop{"reg", x, fb2}, hop{"unreg", x, ""}, hop{"set", x, ""})
	}
	ops = append(ops, hop{kind: "sync"})
	d := 4
	if hc.Thorough() {
		d = 5
	}
	for _, e := range entries {
		if e.Name != "xterm-256color" && e.Name != "sun" {
			continue
		}
		for _, cs := range []struct{ name, locale string }{{"ISO8859-1", "en_US.ISO8859-1"}, {"US-ASCII", "C"}} {
			e, cs := e, cs
			name := "fallbacks/" + e.Name + "/" + cs.name
			cfg := &seq.Config{Name: name, NOps: len(ops), Depth: d, OpName: func(i int) string { return ops[i].String() },
				New: func() seq.Sys { return &hsys{r: newRig(e.Ti, cs.name, cs.locale, 4, 1), ops: ops} }, Stop: w.Expired,
				OnViolation: func(sig, desc string, hist []int) {
					var names []string
					for _, o := range hist {
						names = append(names, ops[o].String())
					}
					w.Violation(sig+":"+termClass(e.Ti), name+": "+desc+"\n history: "+strings.Join(names, "; "), map[string]interface{}{"scenario": name, "ops": hist})
				}}
			st := seq.Explore(cfg)
			w.R.States += st.States
			w.R.Transitions += st.Transitions
			w.R.Executions += st.Transitions
			w.R.Scenarios[name] = st.Summary()
		}
	}
}

func main() {
	w = hc.Start("C17")
	w.R.Rule = "sweep: each of the 24 stateless charsets (22 registered + US-ASCII + UTF-8) x four terminal classes (DEC ACS by ESC ( 0: xterm-256color; DEC ACS by SO/SI: vt100; CP437 alternate font: ansi; no ACS: sun) x every BMP rune from U+0020 (+64 supplementary) as cell content and as a combining rune after 'a'; the reference terminal decodes the bytes in the same charset with the alternate character set mapped per the entry's acsc pairs; expected glyph = the rune if the codec round-trips it, else the ACS glyph of that identity, else the registered fallback, else '?', padded to the rune's width; CanDisplay compared with the same decision. histories: BFS depth 4 (5) over Register/Unregister fallback x set x Sync for an ACS rune, an unrepresentable rune, a representable rune and a wide rune. distinct_nontrivial = swept (charset, terminal, rune) cases where the rune is not plainly encodable narrow text"
	w.R.Assumptions = []string{"the x/text and gdamore/encoding codecs define the charsets; a rune is representable iff it round-trips", "ACS glyph identity: terminfo(5)'s acsc glyph names mapped to tcell's exported Rune* constants", "registered fallback strings have the width of the rune they replace (the API's documented requirement)", "locale -> charset selection goes through LC_ALL as tcell's getCharset documents"}
	entries := common.Entries()
	if *hc.Replay != "" {
		fmt.Println("replay: the failing (entry, charset, rune) is in the replay file; re-run ./vc C17")
		return
	}
	sweep(entries)
	acsAll(entries)
	envShapes(entries)
	spellings(entries)
	histories(entries)
	isolation(entries)
	w.Finish()
}
