// Draw harness — C01 (display equals logical screen), C13 (only changed cells are written)
// and the history part of C09 (output well-formed). Engine A: explicit-state search over
// draw histories on the real terminfo screen driving a fake Tty into the reference terminal.
package main

import (
	"flag"
	"fmt"
	"os"
	"sort"
	"strings"
	"sync/atomic"
	"time"

	"github.com/gdamore/tcell/v2"
	"github.com/gdamore/tcell/v2/terminfo"
	"github.com/gdamore/tcell/v2/views"
	xenc "golang.org/x/text/encoding"

	"verif/harness/common"
	"verif/hc"
	"verif/ref/shadow"
	"verif/ref/vt"
	"verif/seq"
)

var prop = flag.String("prop", "C01", "C01 | C13 | C09")
var w *hc.W

// ---------- terminal configurations ----------

type config struct {
	name       string
	ti         *terminfo.Terminfo
	truecolor  bool
	caps       shadow.Caps
	ulStyle    [6]bool
	quirks     vt.Quirks
	brTrick    bool // paints the bottom-right cell by inserting a character
	opExplicit bool
}

func isFamily(ti *terminfo.Terminfo) bool {
	return strings.HasPrefix(ti.SetCursor, "\x1b[%i%p1%d;%p2%dH")
}

func mkConfig(e common.Entry, truecolor bool) config {
	ti := *e.Ti
	c := config{name: e.Name, truecolor: truecolor}
	if truecolor && ti.SetFgRGB == "" && ti.SetBgRGB == "" && ti.SetFgBgRGB == "" && ti.Colors > 0 {
		ti.SetFgRGB = "\x1b[38;2;%p1%d;%p2%d;%p3%dm"
		ti.SetBgRGB = "\x1b[48;2;%p1%d;%p2%d;%p3%dm"
		ti.SetFgBgRGB = "\x1b[38;2;%p1%d;%p2%d;%p3%d;48;2;%p4%d;%p5%d;%p6%dm"
	}
	c.ti = &ti
	xt := strings.HasPrefix(ti.Name, "xterm") || ti.XTermLike
	mouse := ti.Mouse != ""
	hasRGB := ti.SetFgRGB != "" || ti.SetBgRGB != "" || ti.SetFgBgRGB != ""
	c.caps = shadow.Caps{
		Colors: ti.Colors, TrueColor: truecolor && hasRGB,
		Bold: ti.Bold != "", Underline: ti.Underline != "", Reverse: ti.Reverse != "", Blink: ti.Blink != "",
		Dim: ti.Dim != "", Italic: ti.Italic != "", Strike: ti.StrikeThrough != "",
		HideCursor: ti.HideCursor != "", ULStyles: true,
	}
	c.ulStyle[2] = ti.DoubleUnderline != "" || xt
	c.ulStyle[3] = ti.CurlyUnderline != "" || xt
	c.ulStyle[4] = ti.DottedUnderline != "" || xt
	c.ulStyle[5] = ti.DashedUnderline != "" || xt
	c.caps.ULColor = ti.UnderlineColor != "" || c.ulStyle[3]
	c.caps.ULRGB = ti.UnderlineColorRGB != "" || c.caps.ULColor
	linux := strings.Contains(ti.Name, "linux")
	c.caps.URL = !linux && (ti.EnterUrl != "" || mouse || xt)
	c.caps.CursorStyles = ti.CursorDefault != "" || mouse || xt
	c.caps.CursorColor = true
	c.brTrick = ti.AutoMargin && ti.DisableAutoMargin == "" && ti.InsertChar != ""
	c.quirks = vt.Quirks{FFClears: strings.HasPrefix(ti.Name, "sun"), AltFont: ti.EnterAcs == "\x1b[11m" || ti.EnterAcs == "\x1b[12m", NoAutoWrap: !ti.AutoMargin, EagerWrap: c.brTrick}
	// aixterm and pcansi define "original pair" as an explicit colour pair: what ColorReset
	// shows there is not "the terminal default", so colours of such cells are not compared
	if ti.ResetFgBg != "" {
		t := vt.New(2, 1, nil, vt.Quirks{})
		t.Write([]byte(ti.ResetFgBg))
		c.opExplicit = t.Pen.Fg.Kind != vt.Default || t.Pen.Bg.Kind != vt.Default
	}
	return c
}

// drawSignature: every feature of the entry that selects a branch of the draw path
// (which capability is present, colour count class, corner trick, padding). Entries with
// equal signatures drive the same code paths with different literal strings; the strings
// themselves are decoded for every entry by C14/C15. Used only to pick the quick tier's
// representatives - the thorough tier runs every family entry.
func drawSignature(ti *terminfo.Terminfo) string {
	b := func(s string) bool { return s != "" }
	return fmt.Sprint(ti.Colors, b(ti.SetFgBg), b(ti.SetFgRGB), b(ti.SetFgBgRGB), ti.ResetFgBg == "\x1b[39;49m", b(ti.Bold), b(ti.Underline), b(ti.Reverse),
		b(ti.Blink), b(ti.Dim), b(ti.Italic), b(ti.StrikeThrough), ti.AutoMargin, b(ti.HideCursor), b(ti.InsertChar), b(ti.DisableAutoMargin),
		b(ti.PadChar), strings.Contains(ti.SetCursor+ti.Clear+ti.AttrOff, "$<"), b(ti.EnterUrl), b(ti.CurlyUnderline), b(ti.UnderlineColor), b(ti.Mouse),
		strings.HasPrefix(ti.Name, "xterm") || ti.XTermLike, b(ti.CursorDefault), b(ti.CursorColorRGB), strings.HasPrefix(ti.Name, "sun"), ti.EnterAcs == "\x1b[11m",
		strings.Contains(ti.Name, "linux"), strings.Contains(ti.Clear, "\x0c"))
}

// acsMap: the glyph the terminal shows for a byte while its alternate character set is
// active, per the entry's acsc pairs and terminfo(5)'s glyph-name table.
func acsMap(ti *terminfo.Terminfo) map[byte]rune {
	names := map[byte]rune{'+': tcell.RuneRArrow, ',': tcell.RuneLArrow, '-': tcell.RuneUArrow, '.': tcell.RuneDArrow, '0': tcell.RuneBlock,
		'`': tcell.RuneDiamond, 'a': tcell.RuneCkBoard, 'f': tcell.RuneDegree, 'g': tcell.RunePlMinus, 'h': tcell.RuneBoard, 'i': tcell.RuneLantern,
		'j': tcell.RuneLRCorner, 'k': tcell.RuneURCorner, 'l': tcell.RuneULCorner, 'm': tcell.RuneLLCorner, 'n': tcell.RunePlus, 'o': tcell.RuneS1,
		'p': tcell.RuneS3, 'q': tcell.RuneHLine, 'r': tcell.RuneS7, 's': tcell.RuneS9, 't': tcell.RuneLTee, 'u': tcell.RuneRTee, 'v': tcell.RuneBTee,
		'w': tcell.RuneTTee, 'x': tcell.RuneVLine, 'y': tcell.RuneLEqual, 'z': tcell.RuneGEqual, '{': tcell.RunePi, '|': tcell.RuneNEqual,
		'}': tcell.RuneSterling, '~': tcell.RuneBullet}
	m := map[byte]rune{}
	a := ti.AltChars
	for i := 0; i+1 < len(a); i += 2 {
		if g, ok := names[a[i]]; ok {
			m[a[i+1]] = g
		}
	}
	return m
}

// ---------- operations ----------

type op struct {
	kind string
	x, y int
	r    rune
	comb []rune
	st   int
	w, h int
	cs   int
	col  tcell.Color
	lock bool
}

func (o op) String() string {
	switch o.kind {
	case "set":
		return fmt.Sprintf("SetContent(%d,%d,%q,%q,style%d)", o.x, o.y, o.r, string(o.comb), o.st)
	case "fill":
		return fmt.Sprintf("Fill(%q,style%d)", o.r, o.st)
	case "clear":
		return "Clear()"
	case "setstyle":
		return fmt.Sprintf("SetStyle(style%d)", o.st)
	case "cursor":
		return fmt.Sprintf("ShowCursor(%d,%d)", o.x, o.y)
	case "cstyle":
		return fmt.Sprintf("SetCursorStyle(%d,%v)", o.cs, o.col)
	case "setmut":
		return fmt.Sprintf("SetContent(%d,%d,%q,%q,style%d) and the caller overwrites its slice afterwards", o.x, o.y, o.r, string(o.comb), o.st)
	case "lock":
		return fmt.Sprintf("LockRegion(%d,%d,%d,%d,%v)", o.x, o.y, o.w, o.h, o.lock)
	case "winsize":
		return fmt.Sprintf("window becomes %dx%d (no notification)", o.w, o.h)
	case "resize":
		return fmt.Sprintf("window becomes %dx%d + resize notification", o.w, o.h)
	case "corrupt":
		return "terminal contents corrupted externally"
	}
	return o.kind + "()"
}

var styles = []shadow.StyleD{
	{}, // 0 default
	{Fg: tcell.ColorRed, Bg: tcell.ColorNavy},                                                                                                                                                    // 1 palette fg/bg
	{Fg: tcell.PaletteColor(200), Bg: tcell.ColorYellow},                                                                                                                                         // 2 high palette / bright
	{Fg: tcell.NewRGBColor(10, 200, 33), Bg: tcell.NewRGBColor(250, 250, 1)},                                                                                                                     // 3 RGB
	{Fg: tcell.ColorNone, Bg: tcell.ColorReset},                                                                                                                                                  // 4 none / reset
	{Fg: tcell.ColorWhite, Attrs: tcell.AttrBold, UL: 3, ULColor: tcell.NewRGBColor(1, 2, 3)},                                                                                                    // 5 bold + curly coloured underline
	{Bg: tcell.ColorGreen, Attrs: tcell.AttrReverse | tcell.AttrItalic, URL: "http://x/y;z", URLI: "id1"},                                                                                        // 6 url
	{Fg: tcell.ColorAliceBlue, UL: 1, ULColor: tcell.ColorAliceBlue, Attrs: tcell.AttrDim | tcell.AttrBlink | tcell.AttrStrikeThrough},                                                           // 7 named colour, underline named
	{Fg: tcell.ColorBlack, Bg: tcell.ColorNone, UL: 2, ULColor: tcell.ColorReset},                                                                                                                // 8
	{Fg: tcell.ColorLime, UL: 5, ULColor: tcell.PaletteColor(9)},                                                                                                                                 // 9
	{Fg: tcell.PaletteColor(255), Bg: tcell.NewRGBColor(255, 255, 255), UL: 4, ULColor: tcell.PaletteColor(255)},                                                                                 // 10 extreme values
	{Fg: tcell.Color(1000) | tcell.ColorValid, Bg: tcell.ColorSpecial | 99, URL: "http://h/p?a=1&b=%20;c", URLI: "x-y_z.1"},                                                                      // 11 odd colours, url with ; and %
	{Fg: tcell.NewRGBColor(0, 0, 0), Attrs: tcell.AttrBold | tcell.AttrBlink | tcell.AttrReverse | tcell.AttrDim | tcell.AttrItalic | tcell.AttrStrikeThrough, UL: 3, ULColor: tcell.ColorReset}, // 12 everything
	{URL: "x$<5>y", URLI: ""}, // 13 application text that looks like a padding specification
	// 14..21: a base style and seven variants differing from it in exactly one field
	{Fg: tcell.ColorRed, Bg: tcell.ColorNavy, Attrs: tcell.AttrBold, UL: 3, ULColor: tcell.NewRGBColor(200, 0, 0), URL: "http://u", URLI: "i"},
	{Fg: tcell.ColorGreen, Bg: tcell.ColorNavy, Attrs: tcell.AttrBold, UL: 3, ULColor: tcell.NewRGBColor(200, 0, 0), URL: "http://u", URLI: "i"},
	{Fg: tcell.ColorRed, Bg: tcell.ColorGreen, Attrs: tcell.AttrBold, UL: 3, ULColor: tcell.NewRGBColor(200, 0, 0), URL: "http://u", URLI: "i"},
	{Fg: tcell.ColorRed, Bg: tcell.ColorNavy, Attrs: tcell.AttrBold | tcell.AttrItalic, UL: 3, ULColor: tcell.NewRGBColor(200, 0, 0), URL: "http://u", URLI: "i"},
	{Fg: tcell.ColorRed, Bg: tcell.ColorNavy, Attrs: tcell.AttrBold, UL: 2, ULColor: tcell.NewRGBColor(200, 0, 0), URL: "http://u", URLI: "i"},
	{Fg: tcell.ColorRed, Bg: tcell.ColorNavy, Attrs: tcell.AttrBold, UL: 3, ULColor: tcell.NewRGBColor(0, 200, 0), URL: "http://u", URLI: "i"},
	{Fg: tcell.ColorRed, Bg: tcell.ColorNavy, Attrs: tcell.AttrBold, UL: 3, ULColor: tcell.NewRGBColor(200, 0, 0), URL: "http://v", URLI: "i"},
	{Fg: tcell.ColorRed, Bg: tcell.ColorNavy, Attrs: tcell.AttrBold, UL: 3, ULColor: tcell.NewRGBColor(200, 0, 0), URL: "http://u", URLI: "j"},
}

const nBaseStyles = 14

// a style whose underline is requested through the attribute mask
var styleULViaAttr = shadow.StyleD{Fg: tcell.ColorRed, Attrs: tcell.AttrBold, UL: 1, ULViaAttr: true}

type scenario struct {
	name   string
	w, h   int
	ops    []op
	dq, dt int
	pro    []op // prologue: applied to every fresh instance (a non-initial start state)
}

// a hyperlink whose text tries to end the OSC 8 string and go on with commands (C09 only)
var styleHostileURL = shadow.StyleD{Fg: tcell.ColorRed, URL: "http://h/\x1b\\\x1b[?5h\a", URLI: "i\x07d"}

func init() { styles = append(styles, styleULViaAttr) }

func scenarios() []scenario {
	var out []scenario
	show, sync := op{kind: "show"}, op{kind: "sync"}
	{ // W: wide-rune neighbourhood on 4x1
		var ops []op
		for x := 0; x < 4; x++ {
			ops = append(ops, op{kind: "set", x: x, r: 'a'}, op{kind: "set", x: x, r: '世'})
		}
		ops = append(ops, op{kind: "set", x: 1, r: '界', st: 1}, op{kind: "set", x: 2, r: 'e', comb: []rune{0x0301}}, op{kind: "set", x: 2, r: 'e', comb: []rune{0x0300}}, op{kind: "setmut", x: 2, r: 'e', comb: []rune{0x0301}}, op{kind: "set", x: 0, r: 'e', comb: []rune{0x0301, 0x0302}},
			op{kind: "fill", r: 'b'}, op{kind: "fill", r: '世'}, op{kind: "clear"}, show)
		out = append(out, scenario{"W-wide-4x1", 4, 1, ops, 4, 6, nil})
		// the same alphabet from a painted screen (every cell clean, holding 'b')
		out = append(out, scenario{"W2-wide-from-painted-4x1", 4, 1, ops, 4, 5, []op{{kind: "fill", r: 'b'}, {kind: "show"}}})
	}
	{ // F: one style field at a time on a single cell (set base; show; set variant; show)
		var ops []op
		for si := nBaseStyles; si < len(styles); si++ {
			ops = append(ops, op{kind: "set", x: 0, y: 0, r: 'a', st: si})
		}
		ops = append(ops, op{kind: "set", x: 0, y: 0, r: 'a', st: len(styles) - 1}, show)
		out = append(out, scenario{"F-style-fields-2x1", 2, 1, ops, 4, 5, nil})
	}
	{ // W3: wide runes at the end of a row that is not the last one (what they cover ends at the row's end)
		ops := []op{{kind: "set", x: 2, y: 0, r: '世'}, {kind: "set", x: 2, y: 0, r: 'a'}, {kind: "set", x: 1, y: 0, r: '界', st: 1}, {kind: "set", x: 0, y: 1, r: 'y'},
			{kind: "fill", r: 'b'}, {kind: "fill", r: '世'}, {kind: "clear"}, show}
		// N: re-storing identical blank-like content (NUL, a control rune, a zero-width rune)
		nops := []op{{kind: "set", x: 0, y: 0, r: 0}, {kind: "set", x: 0, y: 0, r: 0x1b}, {kind: "set", x: 0, y: 0, r: 0x200b}, {kind: "set", x: 0, y: 0, r: ' '}, show}
		out = append(out, scenario{"N-restore-blanks-2x1", 2, 1, nops, 4, 5, []op{{kind: "clear"}, {kind: "show"}}})
		out = append(out, scenario{"W3-wide-row-end-3x2", 3, 2, ops, 4, 5, []op{{kind: "clear"}, {kind: "show"}}}) // every cell holds a stored blank and is clean
	}
	{ // B: the bottom-right detour next to wide runes, one of them stale under another (only
		// meaningful where the corner is painted through its neighbour)
		ops := []op{{kind: "set", x: 3, y: 0, r: 'a'}, {kind: "set", x: 3, y: 0, r: 'b', st: 1}, {kind: "set", x: 2, y: 0, r: 'c'}, {kind: "set", x: 0, y: 0, r: '世'}, {kind: "set", x: 1, y: 0, r: '界'}, show}
		out = append(out, scenario{"B-corner-wide-4x1", 4, 1, ops, 3, 4, []op{{kind: "set", x: 1, y: 0, r: '世'}, {kind: "set", x: 0, y: 0, r: '世'}, {kind: "show"}}})
	}
	{ // E: LINES / COLUMNS set to values that differ from the tty's size
		ops := []op{{kind: "set", x: 0, y: 0, r: 'a'}, {kind: "set", x: 2, y: 1, r: 'z', st: 1}, {kind: "set", x: 1, y: 0, r: '世'}, {kind: "cursor", x: 2, y: 1}, show, sync}
		out = append(out, scenario{"E-env-size-hints-3x2", 3, 2, ops, 4, 5, nil})
	}
	{ // C: colour cache without direct colour: two cells, three non-palette colours
		var ops []op
		for _, si := range []int{2, 3, 7} {
			ops = append(ops, op{kind: "set", x: 0, y: 0, r: 'a', st: si}, op{kind: "set", x: 1, y: 1, r: 'b', st: si})
		}
		ops = append(ops, show)
		out = append(out, scenario{"C-colour-cache-2x2", 2, 2, ops, 5, 6, nil})
	}
	{ // S: style cache / colours on 2x2
		var ops []op
		for si := range styles[:nBaseStyles] {
			ops = append(ops, op{kind: "set", x: 0, y: 0, r: 'a', st: si}, op{kind: "set", x: 1, y: 1, r: 'b', st: si})
		}
		for _, si := range []int{0, 1, 3, 4, 6} {
			ops = append(ops, op{kind: "setstyle", st: si})
		}
		ops = append(ops, op{kind: "fill", r: ' ', st: 4}, op{kind: "clear"}, show, sync)
		out = append(out, scenario{"S-styles-2x2", 2, 2, ops, 3, 4, nil})
	}
	{ // K: cursor on 3x2
		var ops []op
		for _, p := range [][2]int{{0, 0}, {2, 1}, {3, 0}, {0, 2}, {-1, -1}, {1, 1}, {-3, 0}, {1, -2}} { // (off-screen on one axis only, too)
			ops = append(ops, op{kind: "cursor", x: p[0], y: p[1]})
		}
		ops = append(ops, op{kind: "hidecursor"})
		for _, cs := range []int{0, 2, 6} {
			for _, col := range []tcell.Color{tcell.ColorNone, tcell.ColorRed, tcell.ColorReset, tcell.NewRGBColor(1, 2, 3)} {
				ops = append(ops, op{kind: "cstyle", cs: cs, col: col})
			}
		}
		ops = append(ops, op{kind: "set", x: 2, y: 1, r: 'z'}, op{kind: "set", x: 1, y: 0, r: '世'}, op{kind: "set", x: 0, y: 0, r: 'x'}, op{kind: "set", x: 1, y: 0, r: 'y'}, show, sync)
		out = append(out, scenario{"K-cursor-3x2", 3, 2, ops, 3, 5, nil})
		// from a painted screen with the cursor visible in the middle
		out = append(out, scenario{"K2-cursor-from-painted-3x2", 3, 2, ops, 4, 5, []op{{kind: "cursor", x: 1, y: 1}, {kind: "fill", r: '.'}, {kind: "show"}}})
	}
	{ // L: lock regions on 3x2
		var ops []op
		for _, r := range [][4]int{{0, 0, 1, 1}, {1, 0, 2, 2}, {-1, -1, 3, 2}, {2, 1, 5, 5}, {0, 1, 2, 1}} { // the last one: the neighbour of the bottom-right corner, not the corner
			ops = append(ops, op{kind: "lock", x: r[0], y: r[1], w: r[2], h: r[3], lock: true}, op{kind: "lock", x: r[0], y: r[1], w: r[2], h: r[3], lock: false})
		}
		ops = append(ops, op{kind: "set", x: 0, y: 0, r: 'a', st: 1}, op{kind: "set", x: 1, y: 0, r: 'b'}, op{kind: "set", x: 2, y: 1, r: 'c', st: 2}, op{kind: "set", x: 1, y: 1, r: 'd'},
			op{kind: "fill", r: 'f', st: 1}, show, sync)
		out = append(out, scenario{"L-lock-3x2", 3, 2, ops, 4, 5, nil})
	}
	{ // R: resize / sync / corruption
		var ops []op
		for _, sz := range [][2]int{{3, 2}, {2, 2}, {4, 1}, {1, 1}} {
			ops = append(ops, op{kind: "winsize", w: sz[0], h: sz[1]}, op{kind: "resize", w: sz[0], h: sz[1]})
		}
		ops = append(ops, op{kind: "corrupt"}, op{kind: "set", x: 0, y: 0, r: 'a', st: 1}, op{kind: "set", x: 1, y: 0, r: '世'}, op{kind: "set", x: 2, y: 1, r: 'c'},
			op{kind: "set", x: 1, y: 1, r: 'd', st: 2}, op{kind: "set", x: 3, y: 0, r: 'e'}, op{kind: "cursor", x: 1, y: 0}, show, sync)
		out = append(out, scenario{"R-resize-3x2", 3, 2, ops, 4, 5, nil})
	}
	{ // M: mixed on 3x2
		ops := []op{{kind: "set", x: 0, y: 0, r: 'a', st: 1}, {kind: "set", x: 2, y: 1, r: '世', st: 3}, {kind: "set", x: 1, y: 1, r: '世'}, {kind: "set", x: 2, y: 1, r: 'q', st: 5},
			{kind: "set", x: 0, y: 0, r: 'a', comb: []rune{0xd800}}, {kind: "set", x: 1, y: 0, r: 'b', comb: []rune{0x0301, 0x110000, 0x07}},
			{kind: "set", x: 1, y: 0, r: 0x1b}, {kind: "set", x: -1, y: 0, r: 'x'}, {kind: "set", x: 3, y: 9, r: 'x'}, {kind: "set", x: 2, y: 0, r: 0x9b, st: 6},
			{kind: "fill", r: '.', st: 2}, {kind: "clear"}, {kind: "setstyle", st: 1}, {kind: "cursor", x: 2, y: 1}, {kind: "lock", x: 1, y: 1, w: 1, h: 1, lock: true},
			{kind: "lock", x: 1, y: 1, w: 1, h: 1, lock: false}, {kind: "resize", w: 2, h: 2}, {kind: "winsize", w: 3, h: 2}, {kind: "corrupt"}, show, sync}
		out = append(out, scenario{"M-mixed-3x2", 3, 2, ops, 3, 4, nil})
	}
	return out
}

// ---------- system under exploration ----------

type dsys struct {
	cfg       *config
	sc        *scenario
	tty       *common.FakeTty
	term      *vt.Term
	s         tcell.Screen
	sh        *shadow.Screen
	corrupted bool
	curCol    string // cursor colour register expected on the terminal ("" default)
	curColSet bool
	lastStamp int
	errSeen   int
	prevWant  []shadow.Want // expected display at the previous Show
}

var stuck int32

func newSys(cfg *config, sc *scenario) *dsys {
	return newSysLocale(cfg, sc, "en_US.UTF-8", "UTF-8")
}

func newSysLocale(cfg *config, sc *scenario, locale, charset string) *dsys {
	os.Setenv("LC_ALL", locale)
	os.Unsetenv("LINES")
	os.Unsetenv("COLUMNS")
	if strings.HasPrefix(sc.name, "E-") {
		// the size hints disagree with what the tty reports (they are meant for terminals
		// that cannot report their size; the tty's answer wins once it has one)
		os.Setenv("COLUMNS", fmt.Sprint(sc.w+2))
		os.Setenv("LINES", fmt.Sprint(sc.h+1))
	}
	os.Unsetenv("TCELL_ALTSCREEN")
	if cfg.truecolor {
		os.Unsetenv("TCELL_TRUECOLOR")
	} else {
		os.Setenv("TCELL_TRUECOLOR", "disable")
	}
	d := &dsys{cfg: cfg, sc: sc}
	var enc xenc.Encoding
	if charset != "UTF-8" {
		enc = tcell.GetEncoding(charset)
	}
	q := cfg.quirks
	if q.AcsMap == nil {
		q.AcsMap = acsMap(cfg.ti)
	}
	d.term = vt.New(sc.w, sc.h, enc, q)
	d.tty = common.NewFakeTty(d.term, sc.w, sc.h)
	ti := *cfg.ti
	s, err := tcell.NewTerminfoScreenFromTtyTerminfo(d.tty, &ti)
	if err != nil {
		panic(err)
	}
	if err := s.Init(); err != nil {
		panic(err)
	}
	d.s = s
	d.sh = shadow.New(sc.w, sc.h)
	d.lastStamp = d.term.Stamp()
	if len(sc.pro) > 0 {
		saved := sc.ops
		d.sc = &scenario{name: sc.name, w: sc.w, h: sc.h, ops: sc.pro}
		for i := range sc.pro {
			d.Apply(i)
		}
		d.sc = sc
		_ = saved
	}
	return d
}

func (d *dsys) Close() {
	if !common.Finishes(func() { d.s.Fini() }) {
		atomic.AddInt32(&stuck, 1)
	}
}

func (d *dsys) Key() string {
	var sb strings.Builder
	sb.WriteString(tcell.VerifScreenDump(d.s))
	fmt.Fprintf(&sb, "#%v %d %d %v %d,%d %d %q %v|", d.corrupted, d.tty.W, d.tty.H, d.term.CursorVisible, d.term.CX, d.term.CY, d.term.CursorStyle, d.term.CursorColor, d.term.Pen)
	for y := 0; y < d.term.H; y++ {
		for x := 0; x < d.term.W; x++ {
			c := d.term.At(x, y)
			fmt.Fprintf(&sb, "%d%s%d%v%v;", c.R, c.Comb, c.Wide, c.Pen, c.Junk)
		}
	}
	sb.WriteString("#")
	// the whole reference model is part of the key: two histories merge only if the
	// implementation state AND the model state agree
	for i := range d.sh.Cells {
		c := &d.sh.Cells[i]
		fmt.Fprintf(&sb, "%v%v%d%v%v;", c.ChangedSince, c.Lock, c.R, c.Comb, c.S)
	}
	fmt.Fprintf(&sb, "%v%v%d,%d,%d,%v,%dx%d,%q", d.sh.AllChanged, d.sh.Default, d.sh.CursorStyle, d.sh.CursorX, d.sh.CursorY, d.sh.CursorColor, d.sh.W, d.sh.H, d.curCol)
	return sb.String()
}

func (d *dsys) caps() shadow.Caps {
	c := d.cfg.caps
	return c
}

func (d *dsys) Apply(i int) (sig, desc string) {
	o := d.sc.ops[i]
	defer func() {
		if r := recover(); r != nil {
			sig, desc = "panic:"+o.kind, fmt.Sprintf("%v panicked: %v", o, r)
		}
	}()
	redraw := "" // "show" | "full"
	switch o.kind {
	case "set":
		d.s.SetContent(o.x, o.y, o.r, o.comb, styles[o.st].Style())
		d.sh.SetContent(o.x, o.y, o.r, o.comb, styles[o.st])
	case "fill":
		d.s.Fill(o.r, styles[o.st].Style())
		d.sh.Fill(o.r, styles[o.st])
	case "clear":
		d.s.Clear()
		d.sh.Fill(' ', shadow.StyleD{})
	case "setstyle":
		d.s.SetStyle(styles[o.st].Style())
		if d.sh.Default != styles[o.st] {
			d.sh.Default = styles[o.st]
			// cells drawn earlier with the previous default keep their look until they are
			// redrawn: equality is demanded again from the next Sync / resize redraw on
			d.corrupted = true
			// cells holding the default style change appearance
			for k := range d.sh.Cells {
				if d.sh.Cells[k].S.IsZero() {
					d.sh.Cells[k].ChangedSince = true
				}
			}
		}
	case "cursor":
		d.s.ShowCursor(o.x, o.y)
		d.sh.CursorX, d.sh.CursorY = o.x, o.y
	case "hidecursor":
		d.s.HideCursor()
		d.sh.CursorX, d.sh.CursorY = -1, -1
	case "cstyle":
		if o.col == tcell.ColorNone {
			d.s.SetCursorStyle(tcell.CursorStyle(o.cs))
		} else {
			d.s.SetCursorStyle(tcell.CursorStyle(o.cs), o.col)
		}
		d.sh.CursorStyle = o.cs
		d.sh.CursorColor = o.col
	case "setmut":
		// the application reuses its slice: what the cell shows is what was in it at the call
		buf := append([]rune(nil), o.comb...)
		d.s.SetContent(o.x, o.y, o.r, buf, styles[o.st].Style())
		d.sh.SetContent(o.x, o.y, o.r, o.comb, styles[o.st])
		for i := range buf {
			buf[i] = 0x0308
		}
	case "lock":
		d.s.LockRegion(o.x, o.y, o.w, o.h, o.lock)
		d.sh.LockRegion(o.x, o.y, o.w, o.h, o.lock)
	case "winsize":
		if o.w < d.term.W || o.h < d.term.H {
			// a silent shrink makes the terminal drop content; if the size is back to what the
			// screen knows by the next Show, the screen cannot tell: external corruption
			d.corrupted = true
		}
		d.tty.SetSize(o.w, o.h)
	case "corrupt":
		d.term.Scramble()
		d.corrupted = true
	case "show":
		before := d.tty.W != d.sh.W || d.tty.H != d.sh.H
		d.s.Show()
		if before {
			d.sh.Resize(d.tty.W, d.tty.H)
			redraw = "full"
		} else {
			redraw = "show"
		}
	case "sync":
		d.s.Sync()
		d.sh.Resize(d.tty.W, d.tty.H)
		d.sh.AllChanged = true
		redraw = "full"
	case "resize":
		d.tty.SetSize(o.w, o.h)
		n, _ := d.tty.Snapshot()
		if !d.tty.Notify() {
			return "resize-callback", "no resize callback is registered on the tty while the screen is running"
		}
		dead := int32(0)
		stop := make(chan struct{})
		common.WatchIdle(stop, func() { atomic.StoreInt32(&dead, 1); d.tty.Kick() })
		ok := d.tty.WaitWrites(n, func() bool { return atomic.LoadInt32(&dead) == 1 })
		close(stop)
		if !ok {
			return "resize-no-redraw", fmt.Sprintf("%v: the screen did not redraw after the terminal reported a new size", o)
		}
		d.s.Size() // passes through the screen lock: the redraw has completed
		d.sh.Resize(d.tty.W, d.tty.H)
		d.sh.AllChanged = true
		redraw = "full"
	}
	if len(d.term.Errors) > d.errSeen {
		e := d.term.Errors[d.errSeen]
		d.errSeen = len(d.term.Errors)
		return "malformed-output:" + firstWords(e, 4), fmt.Sprintf("after %v the output stream is not well formed: %s", o, e)
	}
	if d.term.InString() {
		return "output-ends-mid-sequence", fmt.Sprintf("after %v the output ends in the middle of a control sequence or character", o)
	}
	if d.term.Scrolled > 0 {
		return "scrolled", fmt.Sprintf("after %v the output made the terminal scroll", o)
	}
	if redraw == "" {
		return "", ""
	}
	if redraw == "full" {
		d.corrupted = false
	}
	caps := d.caps()
	want := d.sh.Expect(caps)
	// underline styles are per-capability
	for k := range want {
		if want[k].UL > 1 && !d.cfg.ulStyle[want[k].UL] {
			want[k].UL = 1
		}
		if d.cfg.opExplicit && k < len(d.sh.Cells) {
			st := d.sh.Cells[k].S
			if st.IsZero() {
				st = d.sh.Default
			}
			if st.Fg == tcell.ColorReset || st.Bg == tcell.ColorReset {
				want[k].NoColor = true
			}
		}
	}
	if *prop == "C01" && !d.corrupted {
		if m := shadow.Compare(d.term, want, d.sh.W, d.sh.H); m != "" {
			tag := classify(m)
			if d.sh.W == 1 {
				tag += ":one-column"
			}
			return "display:" + tag, fmt.Sprintf("after %v the terminal does not show the logical screen: %s", o, m)
		}
		if m := d.checkCursor(); m != "" {
			return "cursor:" + firstWords(m, 3), fmt.Sprintf("after %v: %s", o, m)
		}
	}
	if *prop == "C13" {
		if m := d.checkWritten(redraw == "full", want); m != "" {
			return "overdraw:" + firstWords(m, 3), fmt.Sprintf("%v: %s", o, m)
		}
		// "... and are repainted by the first Show() after being unlocked": whatever the
		// application put on the terminal there while it held the lock is painted over
		for y := 0; y < d.sh.H; y++ {
			for x := 0; x < d.sh.W; x++ {
				sc := d.sh.At(x, y)
				if sc.Unlocked && !sc.Lock && d.term.At(x, y).Stamp <= d.lastStamp && !(d.cfg.brTrick && d.sh.W == 1) {
					return "not-repainted-after-unlock", fmt.Sprintf("%v: cell (%d,%d) was unlocked since the previous Show() and this Show() did not write it", o, x, y)
				}
			}
		}
	}
	// end of a Show: bookkeeping for the next one
	for k := range d.sh.Cells {
		if !d.sh.Cells[k].Lock {
			d.sh.Cells[k].ChangedSince = false
			d.sh.Cells[k].Unlocked = false
		}
	}
	d.sh.AllChanged = false
	d.lastStamp = d.term.Stamp()
	d.prevWant = want
	return "", ""
}

func firstWords(s string, n int) string {
	f := strings.Fields(s)
	if len(f) > n {
		f = f[:n]
	}
	return strings.Join(f, " ")
}

func classify(m string) string {
	for _, k := range []string{"previous (arbitrary)", "covered by the wide", "shows", "combining", "foreground", "background", "attributes", "reverse", "underline style", "underline colour", "hyperlink", "terminal is"} {
		if strings.Contains(m, k) {
			return k
		}
	}
	return "other"
}

func (d *dsys) checkCursor() string {
	t := d.term
	x, y := d.sh.CursorX, d.sh.CursorY
	in := x >= 0 && y >= 0 && x < d.sh.W && y < d.sh.H
	if in {
		if !t.CursorVisible {
			return fmt.Sprintf("cursor requested at (%d,%d) but hidden on the terminal", x, y)
		}
		if t.CX != x || t.CY != y {
			return fmt.Sprintf("cursor requested at (%d,%d) but the terminal's cursor is at (%d,%d)", x, y, t.CX, t.CY)
		}
		if d.cfg.caps.CursorStyles && t.CursorStyle != d.sh.CursorStyle {
			return fmt.Sprintf("cursor shape %d requested, terminal has %d", d.sh.CursorStyle, t.CursorStyle)
		}
		// colour: a valid colour or ColorReset takes effect when the cursor is shown
		switch {
		case d.sh.CursorColor == tcell.ColorReset:
			d.curCol = ""
		case d.sh.CursorColor.Valid():
			r, g, b := d.sh.CursorColor.RGB()
			d.curCol = fmt.Sprintf("#%02x%02x%02x", r, g, b)
		}
		if !strings.EqualFold(t.CursorColor, d.curCol) {
			return fmt.Sprintf("cursor colour %q expected, terminal has %q", d.curCol, t.CursorColor)
		}
		return ""
	}
	if d.cfg.caps.HideCursor {
		if t.CursorVisible {
			return fmt.Sprintf("cursor request (%d,%d) is off-screen but the cursor is visible at (%d,%d)", x, y, t.CX, t.CY)
		}
		return ""
	}
	if t.CX != d.sh.W-1 || t.CY != d.sh.H-1 {
		return fmt.Sprintf("cursor cannot be hidden and should be parked at the bottom-right corner, it is at (%d,%d)", t.CX, t.CY)
	}
	return ""
}

// checkWritten: cells written by the Show block(s) since the previous Show must be allowed.
func sameWant(a, b shadow.Want) bool {
	return fmt.Sprintf("%+v", a) == fmt.Sprintf("%+v", b)
}

func (d *dsys) checkWritten(full bool, want []shadow.Want) string {
	if full || d.sh.AllChanged || len(d.prevWant) != len(want) {
		return ""
	}
	W, H := d.sh.W, d.sh.H
	// a cell may be written if a store changed it since the previous Show (ChangedSince,
	// also set by unlock) or if what the terminal must display there differs from what it
	// had to display at the previous Show (this is how columns covered or uncovered by a
	// changed wide rune enter the set)
	allowed := func(x, y int) bool {
		if x < 0 || x >= W {
			return false
		}
		return d.sh.At(x, y).ChangedSince || !sameWant(d.prevWant[y*W+x], want[y*W+x])
	}
	for y := 0; y < H; y++ {
		for x := 0; x < W; x++ {
			c := d.term.At(x, y)
			if c.Stamp <= d.lastStamp {
				continue
			}
			sc := d.sh.At(x, y)
			if sc.Lock {
				if d.cfg.brTrick && y == H-1 && x < W-1 && !d.sh.At(W-1, H-1).Lock && d.term.At(W-1, H-1).Stamp > d.lastStamp {
					// the bottom-right cell was painted in this block by inserting a character:
					// that detour necessarily writes the cell(s) left of the corner
					return fmt.Sprintf("locked corner neighbour written: (%d,%d) is locked and was written by the bottom-right insert-character detour of Show()", x, y)
				}
				return fmt.Sprintf("locked cell written: (%d,%d) was written by Show() while locked", x, y)
			}
			if allowed(x, y) {
				continue
			}
			// the other column of a wide rune that is (re)painted or replaced
			if (want[y*W+x].Tail || d.prevWant[y*W+x].Tail) && allowed(x-1, y) {
				continue
			}
			if (want[y*W+x].Wide == 2 || d.prevWant[y*W+x].Wide == 2) && allowed(x+1, y) {
				continue
			}
			// neighbour used to paint the bottom-right corner (and the rune covering it); when
			// the corner is the second half of a wide rune the neighbour is the cell left of
			// that rune
			lo := W - 3
			if want[(H-1)*W+W-1].Tail || d.prevWant[(H-1)*W+W-1].Tail {
				lo = W - 4
			}
			if d.cfg.brTrick && y == H-1 && x >= lo && allowed(W-1, H-1) {
				continue
			}
			return fmt.Sprintf("unchanged cell written: (%d,%d) was rewritten by Show() although neither it nor a wide neighbour changed since the previous Show()", x, y)
		}
	}
	return ""
}

// ---------- C09 part 1: every code point as primary cell content ----------

func sweepSys(ti *terminfo.Terminfo, locale string, w, h int) *dsys {
	cfg := mkConfig(common.Entry{Name: ti.Name, Ti: ti}, false)
	sc := &scenario{name: "sweep", w: w, h: h}
	d := newSys(&cfg, sc)
	return d
}

func sweep(entries []common.Entry) {
	locales := []struct{ env, cs string }{{"en_US.UTF-8", "UTF-8"}, {"en_US.ISO8859-1", "ISO8859-1"}, {"C", "US-ASCII"}, {"zh_CN.GBK", "GBK"}}
	var tis []*terminfo.Terminfo
	for _, e := range entries {
		if e.Name == "xterm-256color" || e.Name == "sun" {
			tis = append(tis, e.Ti)
		}
	}
	var runes []rune
	for r := rune(-2); r <= 0x110001; r++ {
		runes = append(runes, r)
	}
	runes = append(runes, -2147483648, 2147483647)
	item := 0
	for _, ti := range tis {
		for _, loc := range locales {
			for _, sz := range [][2]int{{3, 1}, {2, 1}} {
				item++
				func() {
					os.Setenv("LC_ALL", loc.env)
					cfg := mkConfig(common.Entry{Name: ti.Name, Ti: ti}, false)
					sc := &scenario{name: "sweep", w: sz[0], h: sz[1]}
					os.Setenv("VERIF_LOCALE", loc.env)
					d := newSysLocale(&cfg, sc, loc.env, loc.cs)
					defer d.Close()
					d.s.Show()
					n := 0
					for ri, r := range runes {
						if (ri+item)%*hc.NShards != *hc.Shard {
							continue
						}
						for mode := 0; mode < 2; mode++ {
							n++
							before := len(d.term.Text)
							bells, shift, g0, g1, title := d.term.Bells, d.term.Shift, d.term.G[0], d.term.G[1], d.term.Title
							if mode == 0 {
								for x := 0; x < sz[0]; x++ {
									d.s.SetContent(x, 0, r, nil, tcell.StyleDefault)
								}
							} else {
								d.s.Fill(r, tcell.StyleDefault)
							}
							d.s.Show()
							how := map[int]string{0: "SetContent", 1: "Fill"}[mode]
							bad := ""
							switch {
							case len(d.term.Errors) > d.errSeen:
								bad = "output not well formed: " + d.term.Errors[d.errSeen]
								d.errSeen = len(d.term.Errors)
							case d.term.InString():
								bad = "output ends inside a control sequence or character"
							case d.term.Bells != bells || d.term.Shift != shift || d.term.G[0] != g0 || d.term.G[1] != g1 || d.term.Title != title || d.term.Scrolled > 0:
								bad = fmt.Sprintf("the cell content acted as a control function on the terminal (bell %d->%d, shift %d->%d, charset %c%c->%c%c, scrolled %d)", bells, d.term.Bells, shift, d.term.Shift, g0, g1, d.term.G[0], d.term.G[1], d.term.Scrolled)
							}
							for _, pr := range d.term.Text[before:] {
								if pr < 0x20 || pr == 0x7f || (pr >= 0x80 && pr < 0xa0) {
									bad = fmt.Sprintf("control character U+%04X reached the terminal as text", pr)
								}
							}
							if bad == "" {
								_, wd := shadow.Shown(r)
								mustBlank := false
								if sr, _ := shadow.Shown(r); sr == ' ' && r != ' ' {
									mustBlank = true
								}
								if mustBlank || (wd == 2 && loc.cs == "UTF-8") {
									for x := 0; x < sz[0]; x++ {
										c := d.term.At(x, 0)
										if mustBlank && (c.R != ' ' || c.Wide != 1 || c.Comb != "") {
											bad = fmt.Sprintf("cell (%d,0) must show a blank for this rune, terminal shows %s", x, c)
										}
									}
								}
							}
							if bad != "" {
								w.Violation("codepoint:"+how+":"+runeClass(r), fmt.Sprintf("%s, locale %s, %dx%d screen, %s of rune %#x: %s", ti.Name, loc.cs, sz[0], sz[1], how, r, bad),
									map[string]interface{}{"entry": ti.Name, "locale": loc.env, "rune": r, "how": how})
								d.term.Scrolled = 0
							}
							d.term.Text = d.term.Text[:0]
						}
					}
					w.R.Evaluations += int64(n)
					w.AddDistinct(int64(n))
				}()
			}
		}
	}
	os.Setenv("LC_ALL", "en_US.UTF-8")
	w.R.Scenarios["codepoint_sweep"] = map[string]interface{}{"runes": len(runes), "locales": 4, "entries": len(tis), "screen_sizes": 2, "modes": "SetContent in every column, Fill"}
	w.Sample(map[string]interface{}{"codepoint": "U+009B via Fill on sun / ISO8859-1 / 2x1", "expect": "blank cells, no CSI reaches the terminal"})
}

func runeClass(r rune) string {
	switch {
	case r < 0 || r > 0x10ffff:
		return "invalid"
	case r < ' ':
		return "c0"
	case r == 0x7f:
		return "del"
	case r >= 0x80 && r < 0xa0:
		return "c1"
	case r >= 0xd800 && r <= 0xdfff:
		return "surrogate"
	}
	if _, wd := shadow.Shown(r); wd == 2 {
		return "wide"
	}
	if sr, _ := shadow.Shown(r); sr == ' ' && r != ' ' {
		return "zerowidth"
	}
	return "printable"
}

func c09Scenarios() []scenario {
	show := op{kind: "show"}
	styles = append(styles, styleHostileURL) // (C09 only: the display comparison of C01 would need the sanitised form)
	ops := []op{
		{kind: "set", x: 0, r: 'e', comb: []rune{0x0301, 0x200d}}, {kind: "set", x: 1, r: 'a', comb: []rune{0x0300, 0x0301, 0x0302, 0x0303}},
		{kind: "set", x: 2, r: '世', comb: []rune{0x0301}}, {kind: "set", x: 1, r: 'x', st: 10}, {kind: "set", x: 0, r: 'y', st: 11}, {kind: "set", x: 2, r: 'z', st: 12},
		{kind: "set", x: 3, r: '%', st: 13}, {kind: "setstyle", st: 11}, {kind: "fill", r: 0x85, st: 10}, {kind: "cstyle", cs: 9, col: tcell.NewRGBColor(255, 255, 255)}, {kind: "cstyle", cs: 1, col: tcell.Color(1000) | tcell.ColorValid},
		{kind: "cursor", x: 1, y: 0}, show, {kind: "sync"},
		// cursor requests off the screen, on one axis or both, by a little or by a lot: hidden,
		// never addressed ("no ... negative numbers")
		// control characters in a combining list (the demos' puts() pattern puts every rune of
		// width 0 there, and the width table says 0 for controls): never written to the terminal
		{kind: "set", x: 3, r: 'u', st: len(styles) - 1},
		{kind: "set", x: 0, r: 'q', comb: []rune{0x07}}, {kind: "set", x: 1, r: 'q', comb: []rune{0x9b, 0x1b}}, {kind: "set", x: 2, r: 'q', comb: []rune{0x0301, 0x0e, 0x7f}},
		{kind: "cursor", x: -3, y: 0}, {kind: "cursor", x: 1, y: -2}, {kind: "cursor", x: -1, y: -1}, {kind: "cursor", x: 4, y: 0}, {kind: "cursor", x: -1000, y: 1000},
	}
	return []scenario{{"X-extreme-values-4x1", 4, 1, ops, 3, 4, nil}}
}

// lifecycle (C09): every ECMA-48-family entry x {UTF-8, ISO8859-1}: one fixed walk through
// every capability the screen ever writes (init, modes, styles, cursor shapes, title,
// clipboard, clear, sync, beep, suspend/resume, fini). The stream must tokenize, and every
// character printed as text must be one that cell content accounts for: the cells hold only
// 'Q', a wide rune, a line-drawing rune and blanks, so any other printed character is
// residue of a capability string (padding specification, parameter language).
func lifecycle(entries []common.Entry) {
	locales := []struct{ env, cs string }{{"en_US.UTF-8", "UTF-8"}, {"en_US.ISO8859-1", "ISO8859-1"}, {"ja_JP.ISO2022JP", "ISO2022JP"}}
	item := 5000
	n := 0
	for _, e := range entries {
		if !isFamily(e.Ti) {
			continue
		}
		for _, loc := range locales {
			for _, tc := range []bool{false, true} {
				item++
				if !hc.Mine(item) {
					continue
				}
				n++
				cfg := mkConfig(e, tc)
				sc := &scenario{name: "lifecycle", w: 4, h: 2}
				d := newSysLocale(&cfg, sc, loc.env, loc.cs)
				s := d.s
				allowed := map[rune]bool{'Q': true, ' ': true, 0x4e16: true, tcell.RuneHLine: true, '?': true}
				for _, c := range tcell.RuneFallbacks[tcell.RuneHLine] {
					allowed[c] = true
				}
				// the glyph the reference terminal shows for the byte the entry assigns to
				// the horizontal line (ansi/pcansi/cygwin draw scan lines 1-9 with one byte)
				for a := cfg.ti.AltChars; len(a) >= 2; a = a[2:] {
					if a[0] == 'q' {
						allowed[d.term.Q.AcsMap[a[1]]] = true
					}
				}
				step := func(what string) {
					bad := ""
					switch {
					case len(d.term.Errors) > d.errSeen:
						bad = "output not well formed: " + d.term.Errors[d.errSeen]
						d.errSeen = len(d.term.Errors)
					case d.term.InString():
						bad = "output ends inside a control sequence or character"
					case d.term.Scrolled > 0:
						bad = "the terminal scrolled"
						d.term.Scrolled = 0
					}
					var stray []rune
					for _, pr := range d.term.Text {
						if !allowed[pr] {
							stray = append(stray, pr)
						}
					}
					d.term.Text = d.term.Text[:0]
					if bad == "" && len(stray) > 0 {
						bad = fmt.Sprintf("text %q was printed that no cell content accounts for", string(stray))
					}
					if bad != "" {
						w.Violation("lifecycle:"+what+":"+familyOf(&cfg), fmt.Sprintf("%s (direct colour %v), locale %s, after %s: %s", e.Name, tc, loc.cs, what, bad),
							map[string]interface{}{"entry": e.Name, "locale": loc.env, "step": what})
					}
				}
				step("Init")
				s.EnableMouse()
				s.EnablePaste()
				s.EnableFocus()
				step("EnableMouse/EnablePaste/EnableFocus")
				for i, si := range []int{12, 5, 6, 10} {
					s.SetContent(i, 0, 'Q', nil, styles[si].Style())
				}
				s.SetContent(0, 1, 0x4e16, nil, styles[11].Style())
				s.SetContent(2, 1, tcell.RuneHLine, nil, styles[1].Style())
				s.ShowCursor(1, 1)
				s.Show()
				step("Show")
				for cs := tcell.CursorStyleDefault; cs <= tcell.CursorStyleSteadyBar; cs++ {
					s.SetCursorStyle(cs, tcell.NewRGBColor(1, 2, 3))
					s.Show()
				}
				s.SetCursorStyle(tcell.CursorStyleDefault, tcell.ColorReset)
				s.Show()
				step("SetCursorStyle")
				s.SetTitle("Q\u00dcQ\u3042") // (U+00DC: its UTF-8 form contains the byte 9c, the 8-bit string terminator; U+3042: ISO-2022-JP needs an escape sequence for it)
				s.SetClipboard([]byte("Q"))
				s.GetClipboard()
				_ = s.Beep()
				step("SetTitle/SetClipboard/GetClipboard/Beep")
				s.Clear()
				s.Show()
				step("Clear+Show")
				s.Fill('Q', styles[3].Style())
				s.HideCursor()
				s.Sync()
				step("Fill+Sync")
				// the library's own text widget: control characters in the text are primary
				// content like any other (shown as blanks), never a combining list written raw
				{
					vp := views.NewViewPort(s, 0, 0, 4, 1)
					txt := views.NewText()
					txt.SetView(vp)
					txt.SetText("Q\aQ\x0e\x7f\u009bQ\r")
					txt.Draw()
					s.Show()
					step("views.Text with control characters")
				}
				s.SetSize(3, 2)
				s.Show()
				step("SetSize")
				if common.Finishes(func() { _ = s.Suspend() }) {
					step("Suspend")
					_ = s.Resume()
					s.Show()
					step("Resume")
				}
				s.DisableMouse()
				s.DisablePaste()
				s.DisableFocus()
				step("Disable*")
				d.Close()
				step("Fini")
				w.R.Evaluations++
				w.AddDistinct(1)
			}
		}
	}
	os.Setenv("LC_ALL", "en_US.UTF-8")
	w.R.Scenarios["lifecycle_walks"] = n
}

// ---------- driver ----------

func main() {
	w = hc.Start("")
	w.R.Property = *prop
	w.R.Rule = "explicit-state BFS (depth per scenario; states merged only on equal private screen state + reference terminal grid/registers + model bookkeeping) over draw histories on the real terminfo screen with a fake Tty feeding the reference terminal; scenarios: wide-rune neighbourhood 4x1, style/colour cache 2x2 (10 styles: palette, bright, RGB, none/reset, named, underline styles/colours, url), cursor 3x2, lock regions 3x2, resize/Sync/external corruption, mixed incl. out-of-range coordinates and control runes; configurations: one entry per draw-signature class of the ECMA-48 family (thorough: every family entry) x direct colour on/off. Oracle after every Show/Sync/resize redraw: " +
		map[string]string{"C17": "", "C01": "terminal grid == expected display of the shadow model (rune, combining, colours incl. CIE76-nearest, attributes, underline style/colour, hyperlink) and cursor position/visibility/shape/colour", "C13": "cells stamped by the Show block are a subset of the cells changed since the previous Show (+ wide-rune columns, + bottom-right helper cell), never a locked cell", "C09": "the strict tokenizer accepted every byte written (complete CSI/OSC/ESC sequences, numeric parameters, valid UTF-8, no C0/C1 controls in text), no scroll, block ends in ground state"}[*prop] +
		". distinct_nontrivial = distinct canonical states reached"
	w.R.Assumptions = []string{"the reference terminal (ref/vt) is this project's reading of ECMA-48/xterm: deferred wrap, overwriting half of a wide character blanks the other half, back-colour erase", "rune widths from go-runewidth on both sides", "which attributes/underline/hyperlink/cursor features a terminal has is derived from the entry's capability strings with tcell's documented rule 'mouse capability or xterm name => xterm extensions'", "resize notifications are synchronised by waiting for the redraw's Write (a missing redraw is reported only when the call has been outstanding for 120 s and the whole process has been idle for 60 s: load cannot trigger it)"}

	entries := common.Entries()
	var cfgs []config
	classes := map[string]bool{}
	fam := 0
	// the reference configuration represents its class
	sort.SliceStable(entries, func(i, j int) bool { return entries[i].Name == "xterm-256color" && entries[j].Name != "xterm-256color" })
	for _, e := range entries {
		if !isFamily(e.Ti) {
			continue
		}
		fam++
		sig := drawSignature(e.Ti)
		if !hc.Thorough() && *hc.Replay == "" && classes[sig] {
			continue
		}
		classes[sig] = true
		cfgs = append(cfgs, mkConfig(e, false), mkConfig(e, true))
	}
	w.R.Scenarios["family_entries"] = fam
	w.R.Scenarios["draw_signature_classes"] = len(classes)
	w.R.Scenarios["configurations"] = len(cfgs)
	sort.SliceStable(cfgs, func(i, j int) bool { return cfgs[i].name < cfgs[j].name })

	scs := scenarios()
	if os.Getenv("VERIF_BENCH") != "" {
		t0 := time.Now()
		for i := 0; i < 2000; i++ {
			d := newSys(&cfgs[0], &scs[0])
			d.Close()
		}
		fmt.Fprintf(os.Stderr, "newSys+Close: %v each\n", time.Since(t0)/2000)
		t0 = time.Now()
		for i := 0; i < 2000; i++ {
			d := newSys(&cfgs[0], &scs[0])
			d.Apply(0)
			d.Apply(len(scs[0].ops) - 1)
			_ = d.Key()
			d.Close()
		}
		fmt.Fprintf(os.Stderr, "newSys+2ops+key+Close: %v each\n", time.Since(t0)/2000)
		return
	}
	if *hc.Replay != "" {
		var rp struct {
			Config    string
			Truecolor bool
			Scenario  string
			Ops       []int
		}
		if err := hc.LoadReplay(&rp); err != nil {
			fmt.Println(err)
			return
		}
		for ci := range cfgs {
			if cfgs[ci].name != rp.Config || cfgs[ci].truecolor != rp.Truecolor {
				continue
			}
			for si := range scs {
				if scs[si].name != rp.Scenario {
					continue
				}
				d := newSys(&cfgs[ci], &scs[si])
				for _, o := range rp.Ops {
					n := len(d.tty.Blocks)
					sig, desc := d.Apply(o)
					fmt.Printf("%v\n", scs[si].ops[o])
					for _, b := range d.tty.Blocks[n:] {
						fmt.Printf("   wrote %q\n", b)
					}
					if os.Getenv("VERIF_DUMP_GRID") != "" {
						for y := 0; y < d.term.H; y++ {
							for x := 0; x < d.term.W; x++ {
								c := d.term.At(x, y)
								fmt.Printf("   terminal (%d,%d): %q comb %+q wide %d\n", x, y, c.R, c.Comb, c.Wide)
							}
						}
					}
					if sig != "" {
						fmt.Printf("VIOLATION property=%s replay=%s\n  %s: %s\n", *prop, *hc.Replay, sig, desc)
						break
					}
				}
				d.Close()
			}
		}
		return
	}

	if *prop == "C09" {
		sweep(entries)
		lifecycle(entries)
		// histories specific to C09: fewer, the rest is covered by the C01/C13 runs
		var keep []scenario
		for _, sc := range scs {
			if sc.name[0] == 'W' || sc.name[0] == 'S' || sc.name[0] == 'M' || sc.name[0] == 'R' {
				keep = append(keep, sc)
			}
		}
		scs = append(keep, c09Scenarios()...)
	}
	item := 0
	for ci := range cfgs {
		cfg := &cfgs[ci]
		main := cfg.name == "xterm-256color"
		for si := range scs {
			sc := &scs[si]
			item++
			if *hc.Only != "" && *hc.Only != sc.name && *hc.Only != cfg.name {
				continue
			}
			depth := sc.dq
			if hc.Thorough() {
				depth = sc.dt
			}
			if !main {
				depth-- // full depth on the reference configuration, one less elsewhere
				if !hc.Thorough() {
					// quick tier: representatives run the scenarios that depend on the
					// description (wide/corner, styles, resize), without direct colour
					if sc.name[0] == 'S' || sc.name[0] == 'M' {
						depth--
					}
					if sc.name[0] == 'K' {
						depth = 2
					}
					if sc.name[0] == 'L' {
						depth = sc.dq // show; lock; set; show
					}
					if (sc.name[0] == 'L' && !cfg.brTrick) || sc.name[0] == 'M' || sc.name[0] == 'F' || sc.name[0] == 'E' || sc.name[0] == 'N' || strings.HasPrefix(sc.name, "K2") {
						continue // independent of the description: covered on the reference configuration
						// (locks do depend on it where the bottom-right cell is painted through its neighbour)
					}
					if sc.name[0] == 'C' && cfg.caps.Colors < 8 {
						continue
					}
					if cfg.truecolor && sc.name[0] != 'S' {
						continue
					}
				}
			}
			if sc.name[0] == 'B' && (!cfg.brTrick || cfg.truecolor) {
				continue
			}
			if sc.name[0] == 'B' {
				depth = sc.dq
				if hc.Thorough() {
					depth = sc.dt
				}
			}
			if w.Expired() {
				break
			}
			tag := fmt.Sprintf("%s/%s/tc=%v", sc.name, cfg.name, cfg.truecolor)
			ecfg := &seq.Config{Name: tag, NOps: len(sc.ops), Depth: depth,
				OpName: func(i int) string { return sc.ops[i].String() },
				New:    func() seq.Sys { return newSys(cfg, sc) },
				Mine:   hc.Mine, Shard0: *hc.Shard == 0, ShardDepth: 2,
				Stop: w.Expired, MaxViolationSigs: 6,
				OnViolation: func(sig, desc string, hist []int) {
					var names []string
					for _, o := range hist {
						names = append(names, sc.ops[o].String())
					}
					w.Violation(sig+":"+familyOf(cfg), fmt.Sprintf("%s (direct colour %v), scenario %s: %s\n history: %s", cfg.name, cfg.truecolor, sc.name, desc, strings.Join(names, "; ")),
						map[string]interface{}{"Config": cfg.name, "Truecolor": cfg.truecolor, "Scenario": sc.name, "Ops": hist})
				},
			}
			st := seq.Explore(ecfg)
			w.R.States += st.States
			w.R.Transitions += st.Transitions
			w.R.Executions += st.Transitions
			if st.Stopped {
				w.NotExhaustive(tag + " stopped early")
			}
			if os.Getenv("VERIF_DEBUG") != "" {
				fmt.Fprintf(os.Stderr, "%s depth=%d states=%d transitions=%d perdepth=%v\n", tag, depth, st.States, st.Transitions, st.PerDepth)
			}
			if main && cfg.truecolor {
				sum := st.Summary()
				sum["depth_bound"] = depth
				sum["ops"] = len(sc.ops)
				w.R.Scenarios[tag] = sum
			}
			if len(st.SampleHist) > 0 && main {
				w.Sample(map[string]interface{}{"config": tag, "history": st.SampleHist[0]})
			}
		}
	}
	if n := atomic.LoadInt32(&stuck); n > 0 {
		w.Violation("fini-hang", fmt.Sprintf("Fini() did not return for %d explored states (every goroutine of the process blocked for 60 s)", n), nil)
	}
	for i := int64(0); i < w.R.States; i++ {
		w.Distinct(uint64(*hc.Shard)<<40 | uint64(i))
	}
	w.Finish()
}

// familyOf groups configurations for violation signatures (one finding per cause, not per entry).
func familyOf(c *config) string {
	switch {
	case c.brTrick:
		return "insert-char-corner"
	case c.caps.Colors == 0:
		return "mono"
	case c.caps.Colors == 88:
		return "colour88"
	}
	return "colour"
}
