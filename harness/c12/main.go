// C12 — mouse reports decode to the right position, buttons and modifiers.
// Engine C for single reports (complete over button codes, finals, coordinate classes,
// introducers, both parser states), Engine A for report histories (button state machine).
package main

import (
	"fmt"
	"strings"

	"github.com/gdamore/tcell/v2"
	"github.com/gdamore/tcell/v2/terminfo"

	_ "verif/harness/common"
	"verif/hc"
	ri "verif/ref/input"
	"verif/seq"
)

func q(b []byte) string { return fmt.Sprintf("%q", string(b)) }

func fmtEvs(evs []ri.Ev) string {
	s := make([]string, len(evs))
	for i, e := range evs {
		s[i] = e.String()
	}
	return "[" + strings.Join(s, " ") + "]"
}

type rig struct {
	p    *tcell.VerifParser
	w, h int
}

func newRig(w, h int, charset string) *rig {
	ti := terminfo.VerifGet("xterm-256color")
	p, err := tcell.VerifNewParser(ti, charset, w, h)
	if err != nil {
		panic(err)
	}
	return &rig{p, w, h}
}

// feed delivers one report in one read and lets the timeout pass.
var curFeed []byte

func (r *rig) feed(b []byte) []ri.Ev {
	curFeed = b
	a := r.p.Feed(b)
	x := r.p.Expire()
	out := append(ri.ConvAll(a), ri.ConvAll(x)...)
	if n := len(r.p.Pending()); n > 0 {
		out = append(out, ri.Ev{Kind: fmt.Sprintf("LEFTOVER(%d)", n)})
	}
	return out
}

func match(evs []ri.Ev, want ri.MouseExpect) bool {
	if len(evs) != 1 || evs[0].Kind != "mouse" {
		return false
	}
	e := evs[0]
	if e.X != want.X || e.Y != want.Y || e.Mod != want.Mod {
		return false
	}
	return want.ButtonsAny || e.Buttons == want.Buttons
}

func sgr(intro string, code, x, y int, final byte) []byte {
	return []byte(fmt.Sprintf("%s<%d;%d;%d%c", intro, code, x, y, final))
}

func x11(intro string, cb, cx, cy int) []byte {
	return append([]byte(intro+"M"), byte(cb), byte(cx), byte(cy))
}

func main() {
	w := hc.Start("C12")
	w.WatchStall(func() (string, string, interface{}) {
		return "decode", "decoding " + q(curFeed) + " (collectEventsFromInput does not return)", map[string]interface{}{"W": 80, "H": 24, "Charset": "UTF-8", "Reports": []string{string(curFeed)}}
	})
	w.R.Rule = "single reports: SGR button code 0..255 x final M/m x column,row in {-3,-1,0,1,2,w-1,w,w+1,w+100,12345}^2 x introducer {ESC[, 0x9b} x parser state {no press outstanding, press outstanding} on 80x24 and 3x2 screens; X11: Cb x Cx x Cy (thorough: all 2^24; quick: 256x16x16) x introducer; histories: BFS over all sequences (depth 4 quick / 6 thorough, state-deduplicated) of press/release/drag/motion/wheel reports as a conforming xterm emits them plus the 'motion claims button 0 while none is held' quirk, per encoding; every event compared with an independent decoder of the xterm protocol. distinct_nontrivial = distinct expected (position,buttons,modifiers) outcomes among reports that carry a button, wheel or modifier"
	w.R.Assumptions = []string{"button masks for wheel left/right (66,67), extra buttons (bit 7), motion+wheel and X11 button bytes below 32 are not fixed by the statement and are not compared (position and modifiers still are)", "X11 histories contain drag reports only while a press is outstanding (what a conforming terminal sends)"}

	if *hc.Replay != "" {
		var rp struct {
			W, H    int
			Charset string
			Down    bool
			Reports []string
		}
		if err := hc.LoadReplay(&rp); err != nil {
			fmt.Println(err)
			return
		}
		r := newRig(rp.W, rp.H, rp.Charset)
		r.p.SetFlags(false, rp.Down)
		for _, s := range rp.Reports {
			fmt.Printf("report %q -> %s\n", s, fmtEvs(r.feed([]byte(s))))
		}
		return
	}

	singles(w)
	histories(w)
	batches(w)
	w.Finish()
}

func singles(w *hc.W) {
	idx := 0
	for _, sz := range [][2]int{{80, 24}, {3, 2}} {
		W, H := sz[0], sz[1]
		r := newRig(W, H, "UTF-8")
		r8 := newRig(W, H, "ISO8859-1")
		xs := []int{-3, -1, 0, 1, 2, W - 1, W, W + 1, W + 100, 12345}
		ys := []int{-3, -1, 0, 1, 2, H - 1, H, H + 1, H + 100, 12345}
		for code := 0; code < 256; code++ {
			idx++
			if !hc.Mine(idx) {
				continue
			}
			for _, final := range []byte{'M', 'm'} {
				for _, x := range xs {
					for _, y := range ys {
						for _, down := range []bool{false, true} {
							for ii, intro := range []string{"\x1b[", "\x9b"} {
								rg, cs := r, "UTF-8"
								if ii == 1 && (x+y)%2 == 0 {
									rg, cs = r8, "ISO8859-1" // 8-bit introducer in an 8-bit locale as well
								}
								w.R.Evaluations++
								st := ri.MouseState{Down: down}
								want := st.Decode(code, x, y, final == 'm', W, H)
								rg.p.Reset()
								rg.p.SetFlags(false, down)
								b := sgr(intro, code, x, y, final)
								got := rg.feed(b)
								if code&0x5f != 3 || want.Mod != 0 {
									w.Distinct(hc.Hash("sgr", want.String()))
								}
								if !match(got, want) {
									sig := "sgr"
									if ii == 1 {
										sig = "sgr:8bit-csi:" + cs
									} else {
										sig = fmt.Sprintf("sgr:code%d%c:down=%v", code, final, down)
									}
									w.Violation(sig, fmt.Sprintf("SGR report %s on a %dx%d screen (press outstanding: %v) decodes to %s, xterm protocol says %s", q(b), W, H, down, fmtEvs(got), want),
										map[string]interface{}{"W": W, "H": H, "Charset": cs, "Down": down, "Reports": []string{string(b)}})
								}
							}
						}
					}
				}
			}
		}
		// X11
		var cxs, cys []int
		if hc.Thorough() {
			for i := 0; i < 256; i++ {
				cxs = append(cxs, i)
				cys = append(cys, i)
			}
		} else {
			cxs = []int{0, 31, 32, 33, 34, 35, 33 + W - 1, 33 + W, 33 + W + 1, 127, 128, 160, 200, 223, 254, 255}
			cys = []int{0, 31, 32, 33, 34, 35, 33 + H - 1, 33 + H, 33 + H + 1, 127, 128, 160, 200, 223, 254, 255}
		}
		for cb := 0; cb < 256; cb++ {
			idx++
			if !hc.Mine(idx) {
				continue
			}
			if w.Expired() {
				return
			}
			for _, cx := range cxs {
				for _, cy := range cys {
					for ii, intro := range []string{"\x1b[", "\x9b"} {
						if ii == 1 && hc.Thorough() && (cx%16 != 1 || cy%16 != 1) {
							continue
						}
						w.R.Evaluations++
						st := ri.MouseState{Down: true} // drag reports are taken at face value
						want := st.Decode(cb-32, cx-32, cy-32, false, W, H)
						if cb < 32 {
							want.ButtonsAny = true
							want.Mod = 0
						}
						rg, cs := r, "UTF-8"
						if ii == 1 && (cx+cy)%2 == 0 && cb < 128 && cx < 128 && cy < 128 {
							rg, cs = r8, "ISO8859-1"
						}
						rg.p.Reset()
						b := x11(intro, cb, cx, cy)
						got := rg.feed(b)
						if cb >= 32 && ((cb-32)&0x5f != 3 || want.Mod != 0) {
							w.Distinct(hc.Hash("x11", want.String()))
						}
						ok := match(got, want)
						if cb < 32 && len(got) == 1 && got[0].Kind == "mouse" && got[0].X == want.X && got[0].Y == want.Y {
							ok = true // modifiers of a malformed button byte are not compared either
						}
						if !ok {
							sig := fmt.Sprintf("x11:cb%d", cb)
							if ii == 1 {
								sig = "x11:8bit-csi:" + cs
							}
							w.Violation(sig, fmt.Sprintf("X11 report %s (button code %d, column %d, row %d) on a %dx%d screen decodes to %s, xterm protocol says %s", q(b), cb-32, cx-32, cy-32, W, H, fmtEvs(got), want),
								map[string]interface{}{"W": W, "H": H, "Charset": cs, "Reports": []string{string(b)}})
						}
					}
				}
			}
		}
	}
	w.Sample(map[string]interface{}{"report": "ESC[<4;12345;-3M", "expect": "Button1+Shift at (79,0) on 80x24"})
}

// ---- histories ----

type hop struct {
	name   string
	code   int
	rel    bool // SGR 'm'
	needDn bool // X11: only emitted by a conforming terminal while a press is outstanding
}

type hsys struct {
	r    *rig
	st   ri.MouseState
	ops  []hop
	x11  bool
	hist []string
}

func (s *hsys) Close() {}
func (s *hsys) Key() string {
	_, dn := s.r.p.Flags()
	return fmt.Sprintf("%v/%v/%v", dn, s.st.Down, s.st.Held)
}
func (s *hsys) Apply(i int) (string, string) {
	o := s.ops[i]
	if o.needDn && !s.st.Down {
		return "", "" // not something a conforming terminal sends now
	}
	var b []byte
	if s.x11 {
		b = x11("\x1b[", o.code+32, 33+1, 33+1)
	} else {
		f := byte('M')
		if o.rel {
			f = 'm'
		}
		b = sgr("\x1b[", o.code, 2, 2, f)
	}
	want := s.st.Decode(o.code, 2, 2, o.rel, s.r.w, s.r.h)
	got := s.r.feed(b)
	s.hist = append(s.hist, string(b))
	if !match(got, want) {
		return "history:" + map[bool]string{true: "x11", false: "sgr"}[s.x11] + ":" + o.name, fmt.Sprintf("after reports %q the report %s (%s) decodes to %s, want %s", s.hist[:len(s.hist)-1], q(b), o.name, fmtEvs(got), want)
	}
	return "", ""
}

func histories(w *hc.W) {
	for _, isX11 := range []bool{false, true} {
		var ops []hop
		for b := 0; b < 3; b++ {
			ops = append(ops, hop{name: fmt.Sprintf("press%d", b), code: b})
			ops = append(ops, hop{name: fmt.Sprintf("drag%d", b), code: 32 + b, needDn: isX11})
			if !isX11 {
				ops = append(ops, hop{name: fmt.Sprintf("release%d", b), code: b, rel: true})
			}
		}
		if isX11 {
			ops = append(ops, hop{name: "release", code: 3})
		}
		if !isX11 {
			// codes a conforming terminal rarely sends but the quantifier contains: a release
			// naming no button, a release final on a wheel code, horizontal wheel, "press" of no button
			ops = append(ops, hop{name: "release3", code: 3, rel: true}, hop{name: "wheel-up-m", code: 64, rel: true}, hop{name: "wheel-left", code: 66}, hop{name: "press3", code: 3}, hop{name: "wheel-right", code: 67}, hop{name: "wheel-right-m", code: 67, rel: true})
		}
		ops = append(ops, hop{name: "motion-none", code: 35}, hop{name: "wheel-up", code: 64}, hop{name: "wheel-down", code: 65},
			hop{name: "press0+shift", code: 4}, hop{name: "drag0+ctrl", code: 32 + 16, needDn: isX11})
		d := 4
		if hc.Thorough() {
			d = 6
		}
		name := map[bool]string{true: "x11-history", false: "sgr-history"}[isX11]
		shared := newRig(80, 24, "UTF-8")
		cfg := &seq.Config{Name: name, NOps: len(ops), Depth: d,
			OpName: func(i int) string { return ops[i].name },
			New: func() seq.Sys {
				shared.p.Reset()
				return &hsys{r: shared, ops: ops, x11: isX11}
			},
			// the histories are dealt to the shards below depth 2 and the soft deadline is honoured
			Mine: hc.Mine, Shard0: *hc.Shard == 0, ShardDepth: 2, Stop: w.Expired,
			OnViolation: func(sig, desc string, hist []int) {
				w.Violation(sig, name+": "+desc, map[string]interface{}{"scenario": name, "ops": hist})
			},
		}
		// the key (parser flag, reference flag) is tiny; to cover all histories rather than
		// all states the search is run without de-duplication by making keys unique per history
		st := exploreAll(cfg)
		w.R.States += st.States
		w.R.Transitions += st.Transitions
		w.R.Executions += st.Transitions
		w.R.Scenarios[name] = st.Summary()
		if st.Stopped {
			w.NotExhaustive(name + " stopped early")
		}
	}
}

// exploreAll enumerates every history up to the depth (no state merging: the state space
// has four states, the interesting object is the history).
func exploreAll(c *seq.Config) seq.Stats {
	inner := c.New
	c.New = func() seq.Sys { return &uniq{Sys: inner()} }
	return seq.Explore(c)
}

type uniq struct {
	seq.Sys
	h []int
}

func (u *uniq) Apply(i int) (string, string) { u.h = append(u.h, i); return u.Sys.Apply(i) }
func (u *uniq) Key() string                  { return fmt.Sprint(u.h) }

// ---- several reports in one read ----

type bitem struct {
	name  string
	bytes []byte
	key   rune // != 0: a plain key instead of a report
	code  int
	rel   bool
}

// batches: every sequence of 2 or 3 (thorough: up to 4) items - SGR and X11 reports with both
// introducers, and a plain key - delivered in ONE read: the events must be the reference
// decodings of the items in order (a report must consume exactly its own bytes).
func batches(w *hc.W) {
	if *hc.Shard != 0 {
		return
	}
	var items []bitem
	for _, intro := range []string{"\x1b[", "\x9b"} {
		n := map[string]string{"\x1b[": "7bit", "\x9b": "8bit"}[intro]
		items = append(items,
			bitem{name: "sgr-press0/" + n, bytes: sgr(intro, 0, 3, 2, 'M'), code: 0},
			bitem{name: "sgr-release0/" + n, bytes: sgr(intro, 0, 3, 2, 'm'), code: 0, rel: true},
			bitem{name: "sgr-wheel/" + n, bytes: sgr(intro, 64, 3, 2, 'M'), code: 64},
			bitem{name: "x11-press0+ctrl/" + n, bytes: x11(intro, 16+32, 33+2, 33+1), code: 16},
			bitem{name: "x11-release/" + n, bytes: x11(intro, 3+32, 33+2, 33+1), code: 3},
		)
	}
	items = append(items, bitem{name: "key-3", bytes: []byte("3"), key: '3'}, bitem{name: "key-M", bytes: []byte("M"), key: 'M'})
	// the Esc key pressed just before a report arrives: it is its own key event and lends the
	// report no modifier (the report carries its own); only composed in front of a report
	items = append(items, bitem{name: "esc-key", bytes: []byte{0x1b}, key: 0x1b})
	escIdx := len(items) - 1
	maxLen := 3
	if hc.Thorough() {
		maxLen = 4
	}
	r := newRig(80, 24, "UTF-8")
	idx := make([]int, maxLen)
	var cases int64
	for n := 2; n <= maxLen; n++ {
		for i := range idx[:n] {
			idx[i] = 0
		}
		for {
			skipCase := false
			for j, k := range idx[:n] {
				if k == escIdx && (j == n-1 || items[idx[j+1]].key != 0) {
					skipCase = true // Esc + key is Alt+key, a trailing Esc waits for its timeout
				}
			}
			r.p.Reset()
			var st ri.MouseState
			var all []byte
			var names []string
			for _, k := range idx[:n] {
				if skipCase {
					break
				}
				all = append(all, items[k].bytes...)
				names = append(names, items[k].name)
			}
			var got []ri.Ev
			if !skipCase {
				got = r.feed(all)
				cases++
			}
			ok := len(got) == n || skipCase
			firstBad := ""
			var want []string
			for j, k := range idx[:n] {
				it := items[k]
				if skipCase {
					break
				}
				if it.key == 0x1b {
					want = append(want, "Key(Esc)")
					if (ok || len(got) != n) && firstBad == "" && !(j < len(got) && got[j].Kind == "key" && got[j].Key == tcell.KeyEscape && got[j].Mod == 0) {
						ok = false
						firstBad = it.name
					}
					continue
				}
				if it.key != 0 {
					want = append(want, fmt.Sprintf("Rune(%q)", it.key))
					if (ok || len(got) != n) && firstBad == "" && !(j < len(got) && got[j].Kind == "key" && got[j].Key == tcell.KeyRune && got[j].Rune == it.key && got[j].Mod == 0) {
						ok = false
						firstBad = it.name
					}
					continue
				}
				exp := st.Decode(it.code, 3, 2, it.rel, r.w, r.h)
				want = append(want, exp.String())
				if (ok || len(got) != n) && firstBad == "" && !(j < len(got) && match(got[j:j+1], exp)) {
					ok = false
					firstBad = it.name
				}
			}
			if !ok {
				w.Violation("batch:first-wrong:"+firstBad, fmt.Sprintf("one read %s (%s) decodes to %s, want %s", q(all), strings.Join(names, ", "), fmtEvs(got), strings.Join(want, "; ")),
					map[string]interface{}{"W": 80, "H": 24, "Charset": "UTF-8", "Reports": []string{string(all)}})
			}
			// next index vector
			j := n - 1
			for j >= 0 {
				idx[j]++
				if idx[j] < len(items) {
					break
				}
				idx[j] = 0
				j--
			}
			if j < 0 {
				break
			}
		}
	}
	w.R.Evaluations += cases
	w.R.Scenarios["batches"] = fmt.Sprintf("%d sequences of 2..%d items (5 reports x 2 introducers + 2 keys + the Esc key in front of a report) in one read", cases, maxLen)
}
