// C04 — Fini/Suspend restore every terminal mode; Resume re-applies the enabled ones.
// Engine A run to closure: all reachable mode states of the real screen (with the reference
// terminal's registers and the Tty call log), every one followed by Suspend and by Fini.
package main

import (
	"fmt"
	"os"
	"sort"
	"strings"
	"sync/atomic"

	"github.com/gdamore/tcell/v2"
	"github.com/gdamore/tcell/v2/terminfo"

	"verif/harness/common"
	"verif/hc"
	"verif/ref/vt"
	"verif/seq"
)

var w *hc.W

type op struct {
	kind  string
	flags tcell.MouseFlags
	cs    int
	col   tcell.Color
}

func (o op) String() string {
	switch o.kind {
	case "mouse":
		return fmt.Sprintf("EnableMouse(%d)", o.flags)
	case "cstyle":
		return fmt.Sprintf("SetCursorStyle(%d,%v)", o.cs, o.col)
	}
	return o.kind + "()"
}

func ops() []op {
	out := []op{{kind: "mouse", flags: 0}, {kind: "mouse", flags: tcell.MouseButtonEvents}, {kind: "mouse", flags: tcell.MouseDragEvents},
		{kind: "mouse", flags: tcell.MouseMotionEvents}, {kind: "mouse", flags: tcell.MouseButtonEvents | tcell.MouseMotionEvents}, {kind: "nomouse"},
		{kind: "paste"}, {kind: "nopaste"}, {kind: "focus"}, {kind: "nofocus"}}
	for _, cs := range []int{0, 6} {
		for _, col := range []tcell.Color{tcell.ColorNone, tcell.ColorRed, tcell.ColorReset} {
			out = append(out, op{kind: "cstyle", cs: cs, col: col})
		}
	}
	out = append(out, op{kind: "title"}, op{kind: "hostiletitle"}, op{kind: "emptywindow"}, op{kind: "showcursor"}, op{kind: "hidecursor"}, op{kind: "draw"}, op{kind: "suspend"}, op{kind: "resume"}, op{kind: "fini"})
	return out
}

type model struct {
	running, finished bool
	mouse             tcell.MouseFlags
	mouseSet          bool
	paste, focus      bool
	title             string
}

type sys struct {
	ti       *terminfo.Terminfo
	alt      bool
	tty      *common.FakeTty
	term     *vt.Term
	s        tcell.Screen
	m        model
	ops      []op
	errSeen  int
	caps     struct{ mouse, paste, focus, title, saveTitle, cstyles, altscreen, keypad, civis, rmam bool }
	preTitle string
}

var stuck int32

func newSys(ti *terminfo.Terminfo, alt bool, o []op) *sys {
	os.Setenv("LC_ALL", "en_US.UTF-8")
	os.Setenv("TCELL_TRUECOLOR", "disable")
	if alt {
		os.Unsetenv("TCELL_ALTSCREEN")
	} else {
		os.Setenv("TCELL_ALTSCREEN", "disable")
	}
	s := &sys{ti: ti, alt: alt, ops: o}
	s.term = vt.New(4, 2, nil, vt.Quirks{FFClears: strings.HasPrefix(ti.Name, "sun"), NoAutoWrap: !ti.AutoMargin, AltFont: ti.EnterAcs == "\x1b[11m" || ti.EnterAcs == "\x1b[12m"})
	s.term.Title = "user title"
	s.preTitle = s.term.Title
	s.tty = common.NewFakeTty(s.term, 4, 2)
	c := *ti
	sc, err := tcell.NewTerminfoScreenFromTtyTerminfo(s.tty, &c)
	if err != nil {
		panic(err)
	}
	xt := strings.HasPrefix(ti.Name, "xterm") || ti.XTermLike
	mouse := ti.Mouse != ""
	linux := strings.Contains(ti.Name, "linux")
	s.caps.mouse = mouse
	s.caps.paste = ti.EnablePaste != "" || mouse || xt
	s.caps.focus = !linux && (ti.EnableFocusReporting != "" || mouse || xt)
	s.caps.title = !linux && (ti.SetWindowTitle != "" || xt)
	s.caps.saveTitle = !linux && ti.SetWindowTitle == "" && xt
	s.caps.cstyles = ti.CursorDefault != "" || mouse || xt
	if err := sc.Init(); err != nil {
		panic(err)
	}
	s.s = sc
	s.m.running = true
	return s
}

func (s *sys) Close() {
	if !common.Finishes(func() { s.s.Fini() }) {
		atomic.AddInt32(&stuck, 1)
	}
}

func (s *sys) regs() string {
	t := s.term
	var ms []string
	for k, v := range t.Modes {
		if v {
			ms = append(ms, fmt.Sprint(k))
		}
	}
	sort.Strings(ms)
	var am []string
	for k, v := range t.AnsiModes {
		if v {
			am = append(am, fmt.Sprint(k))
		}
	}
	sort.Strings(am)
	return fmt.Sprintf("alt=%v vis=%v cs=%d cc=%q modes=%v ansi=%v kp=%v g=%c%c/%d title=%q stack=%d pen=%v", t.AltScreen, t.CursorVisible, t.CursorStyle, t.CursorColor, ms, am, t.KeypadApp, t.G[0], t.G[1], t.Shift, t.Title, len(t.TitleStack), t.Pen)
}

func (s *sys) Key() string {
	return tcell.VerifScreenDump(s.s) + "#" + s.regs() + fmt.Sprintf("#%+v", s.m)
}

// restored checks the terminal after Fini/Suspend returned.
func (s *sys) restored(what string) (string, string) {
	t := s.term
	bad := func(k, d string) (string, string) {
		return "not-restored:" + k, fmt.Sprintf("after %s returned: %s  [terminal: %s]", what, d, s.regs())
	}
	if t.AltScreen {
		return bad("altscreen", "the terminal is still on the alternate screen")
	}
	if !t.CursorVisible && s.ti.ShowCursor != "" {
		return bad("cursor-hidden", "the cursor is still hidden")
	}
	if t.CursorStyle != 0 {
		return bad("cursor-shape", fmt.Sprintf("the cursor shape is still %d, not the default", t.CursorStyle))
	}
	if t.CursorColor != "" {
		return bad("cursor-colour", fmt.Sprintf("the cursor colour is still %q", t.CursorColor))
	}
	p := t.Pen
	if p.Link != "" {
		return bad("hyperlink", fmt.Sprintf("a hyperlink (OSC 8, %q) is still open: whatever is printed next becomes part of it", p.Link))
	}
	p.Link, p.LinkID = "", ""
	if p != (vt.Pen{}) {
		return bad("sgr", fmt.Sprintf("colours/attributes are not reset: %+v", t.Pen))
	}
	if t.G[t.Shift] != 'B' || t.Shift != 0 {
		return bad("charset", "the alternate character set is still selected")
	}
	if t.KeypadApp {
		return bad("keypad", "keypad application mode is still on")
	}
	for k, v := range t.Modes {
		switch k {
		case 7:
			if !v && s.ti.AutoMargin {
				return bad("automargin", "auto-margin (DECAWM) is still off")
			}
		case 25, 12:
		default:
			if v {
				return bad(fmt.Sprintf("mode%d", k), fmt.Sprintf("DEC private mode %d is still set", k))
			}
		}
	}
	if len(t.TitleStack) != 0 {
		return bad("title-stack", "a title saved on the terminal's title stack was never restored")
	}
	if s.caps.saveTitle && s.alt && t.Title != s.preTitle {
		return bad("title", fmt.Sprintf("the window title is %q, not the saved %q", t.Title, s.preTitle))
	}
	return s.contract(what)
}

// contract checks the Tty call log.
func (s *sys) contract(what string) (string, string) {
	log := s.tty.LogCopy()
	started := false
	drained, unreg := false, false
	closes := 0
	for i, e := range log {
		bad := func(k, d string) (string, string) {
			lo := i - 6
			if lo < 0 {
				lo = 0
			}
			return "tty-contract:" + k, fmt.Sprintf("after %s: %s (call log around it: %v)", what, d, log[lo:i+1])
		}
		switch e.Op {
		case "Start":
			if started {
				return bad("start-twice", "Start called while already started")
			}
			started, drained, unreg = true, false, false
		case "Drain":
			drained = true
		case "NotifyResize(nil)":
			unreg = true
		case "NotifyResize(cb)":
			unreg = false
		case "Stop":
			if !started {
				return bad("stop-without-start", "Stop called on a stopped tty")
			}
			if !drained {
				return bad("no-drain", "Stop was not preceded by Drain")
			}
			if !unreg {
				return bad("resize-cb", "the resize callback was not unregistered before Stop")
			}
			started = false
		case "Close":
			closes++
			if started {
				return bad("close-before-stop", "Close called before Stop")
			}
			if what != "Fini" {
				return bad("close-on-suspend", "Close called although the screen was only suspended")
			}
		case "Write":
			// none of the calls in this alphabet may write to a stopped tty
			if !started {
				return bad("write-after-stop", "bytes were written to the tty after Stop")
			}
		case "Read", "Read(err)", "Read(drained)", "Read(closed)":
			if !started {
				return bad("read-after-stop", "Read called on a stopped tty")
			}
		}
	}
	if what == "Fini" && closes != 1 {
		return "tty-contract:close-count", fmt.Sprintf("after Fini: Close was called %d times", closes)
	}
	if started {
		return "tty-contract:not-stopped", fmt.Sprintf("after %s: the tty was not stopped", what)
	}
	return "", ""
}

// writesWhileStopped: bytes written by tcell itself (not in an application call) after Stop.
func (s *sys) resumed() (string, string) {
	t := s.term
	bad := func(k, d string) (string, string) {
		return "resume:" + k, fmt.Sprintf("after Resume returned: %s  [terminal: %s; application state %+v]", d, s.regs(), s.m)
	}
	want := map[int]bool{}
	if s.caps.mouse {
		if s.m.mouse&tcell.MouseButtonEvents != 0 {
			want[1000] = true
		}
		if s.m.mouse&tcell.MouseDragEvents != 0 {
			want[1002] = true
		}
		if s.m.mouse&tcell.MouseMotionEvents != 0 {
			want[1003] = true
		}
		if s.m.mouse != 0 {
			want[1006] = true
		}
	}
	if s.caps.paste && s.m.paste {
		want[2004] = true
	}
	if s.caps.focus && s.m.focus {
		want[1004] = true
	}
	for _, k := range []int{1000, 1002, 1003, 1006, 2004, 1004} {
		if t.Modes[k] != want[k] {
			return bad(fmt.Sprintf("mode%d", k), fmt.Sprintf("DEC private mode %d is %v, the application had it %v", k, t.Modes[k], want[k]))
		}
	}
	if s.alt && s.ti.EnterCA != "" && strings.Contains(s.ti.EnterCA, "?1049h") && !t.AltScreen {
		return bad("altscreen", "the alternate screen was not entered again")
	}
	if strings.Contains(s.ti.EnterKeypad, "\x1b=") && !t.KeypadApp {
		return bad("keypad", "keypad application mode was not entered again")
	}
	if s.caps.title && s.m.title != "" && t.Title != s.m.title {
		return bad("title", fmt.Sprintf("the window title is %q, the application had set %q", t.Title, s.m.title))
	}
	return "", ""
}

func (s *sys) Apply(i int) (sig, desc string) {
	o := s.ops[i]
	defer func() {
		if r := recover(); r != nil {
			sig, desc = "panic:"+o.kind, fmt.Sprintf("%v panicked: %v", o, r)
		}
	}()
	if s.m.finished {
		return "", "" // Fini is terminal for this exploration (inertness is C06's subject)
	}
	switch o.kind {
	case "mouse":
		if o.flags == 0 {
			s.s.EnableMouse()
			s.m.mouse = tcell.MouseButtonEvents | tcell.MouseDragEvents | tcell.MouseMotionEvents
		} else {
			s.s.EnableMouse(o.flags)
			s.m.mouse = o.flags
		}
	case "nomouse":
		s.s.DisableMouse()
		s.m.mouse = 0
	case "paste":
		s.s.EnablePaste()
		s.m.paste = true
	case "nopaste":
		s.s.DisablePaste()
		s.m.paste = false
	case "focus":
		s.s.EnableFocus()
		s.m.focus = true
	case "nofocus":
		s.s.DisableFocus()
		s.m.focus = false
	case "cstyle":
		if o.col == tcell.ColorNone {
			s.s.SetCursorStyle(tcell.CursorStyle(o.cs))
		} else {
			s.s.SetCursorStyle(tcell.CursorStyle(o.cs), o.col)
		}
	case "title":
		s.s.SetTitle("t")
		s.m.title = "t"
	case "hostiletitle":
		// a title that came from a file name or a web page: whatever the terminal is told to
		// show, the text must not end the title sequence and switch a mode on that nobody
		// will switch off again (DECSCNM here)
		s.s.SetTitle("t\a\x1b[?5h")
		s.m.title = ""
	case "emptywindow":
		// the window has no columns for the time of one Show (a pane squeezed away and back)
		s.tty.SetSize(0, 2)
		s.s.Show()
		s.tty.SetSize(4, 2)
	case "showcursor":
		s.s.ShowCursor(0, 0)
	case "hidecursor":
		s.s.HideCursor()
	case "draw":
		// the last cell painted carries a hyperlink: the pen is left inside it
		s.s.SetContent(1, 0, 'x', nil, tcell.StyleDefault.Foreground(tcell.ColorRed).Bold(true).Underline(true))
		s.s.SetContent(3, 1, 'y', nil, tcell.StyleDefault.Foreground(tcell.ColorRed).Url("http://u/"))
		s.s.Show()
	case "suspend":
		was := s.m.running
		if !common.Finishes(func() { _ = s.s.Suspend() }) {
			atomic.AddInt32(&stuck, 1)
			return "suspend-hang", "Suspend() did not return (every goroutine of the process blocked for 60 s)"
		}
		s.m.running = false
		if was {
			if sg, d := s.restored("Suspend"); sg != "" {
				return sg, d
			}
		}
	case "resume":
		was := s.m.running
		err := s.s.Resume()
		if !was {
			if err != nil {
				return "resume-error", fmt.Sprintf("Resume() on a suspended screen failed: %v", err)
			}
			s.m.running = true
			if sg, d := s.resumed(); sg != "" {
				return sg, d
			}
		}
	case "fini":
		if !common.Finishes(func() { s.s.Fini() }) {
			atomic.AddInt32(&stuck, 1)
			return "fini-hang", "Fini() did not return (every goroutine of the process blocked for 60 s)"
		}
		s.m.running, s.m.finished = false, true
		if sg, d := s.restored("Fini"); sg != "" {
			return sg, d
		}
	}
	if len(s.term.Errors) > s.errSeen {
		e := s.term.Errors[s.errSeen]
		s.errSeen = len(s.term.Errors)
		return "malformed-output", fmt.Sprintf("after %v the output is not well formed: %s", o, e)
	}
	return "", ""
}

func isFamily(ti *terminfo.Terminfo) bool {
	return strings.HasPrefix(ti.SetCursor, "\x1b[%i%p1%d;%p2%dH")
}

func modeSignature(ti *terminfo.Terminfo) string {
	b := func(s string) bool { return s != "" }
	return fmt.Sprint(ti.EnterCA, ti.ExitCA, ti.EnterKeypad, ti.ExitKeypad, b(ti.ShowCursor), b(ti.HideCursor), ti.EnableAcs, ti.DisableAutoMargin, ti.EnableAutoMargin,
		b(ti.Mouse), strings.HasPrefix(ti.Name, "xterm") || ti.XTermLike, strings.Contains(ti.Name, "linux"), ti.EnablePaste, ti.DisablePaste, ti.EnableFocusReporting,
		ti.SetWindowTitle, ti.CursorDefault, ti.CursorColorReset, ti.ResetFgBg, ti.AttrOff, b(ti.Clear))
}

// resumeBeforeInit: Resume on a screen that was never initialized has nothing to resume: it is
// refused and leaves the terminal alone (no Start, no write).
func resumeBeforeInit(e common.Entry) {
	w.R.Evaluations++
	w.AddDistinct(1)
	term := vt.New(4, 2, nil, vt.Quirks{})
	tty := common.NewFakeTty(term, 4, 2)
	c := *e.Ti
	sc, err := tcell.NewTerminfoScreenFromTtyTerminfo(tty, &c)
	if err != nil {
		return
	}
	var perr interface{}
	var rerr error
	func() {
		defer func() { perr = recover() }()
		rerr = sc.Resume()
	}()
	// ... and Fini on it has nothing to finish (no panic, the Tty is not touched)
	func() {
		defer func() {
			if x := recover(); x != nil && perr == nil {
				perr = fmt.Sprintf("Fini: %v", x)
			}
		}()
		sc.Fini()
	}()
	log := tty.LogCopy()
	if perr != nil || rerr == nil || len(log) != 0 {
		var calls []string
		for _, l := range log {
			calls = append(calls, l.String())
		}
		w.Violation("resume-before-init", fmt.Sprintf("%s: Resume() and then Fini() on a screen that was never initialized: Resume returned %v, panic %v, Tty calls %v; Resume must be refused and neither call may touch the terminal or panic", e.Name, rerr, perr, calls), nil)
	}
}

func main() {
	w = hc.Start("C04")
	w.R.Rule = "explicit-state search to closure (frontier empty; depth cap 7 quick / 9 thorough) over EnableMouse (5 flag sets)/DisableMouse, Enable/DisablePaste, Enable/DisableFocus, SetCursorStyle (2 shapes x none/red/reset), SetTitle, Show/HideCursor, draw+Show, Suspend, Resume, Fini on the real screen; states merged on equal private screen state + reference terminal registers + application-state model; at every Suspend and Fini the terminal's registers must be back to the pre-engage state (main screen, cursor visible/default shape/default colour, SGR default, G0 ASCII, keypad and all DEC private modes off, auto-margin on, title stack balanced and saved title restored) and the Tty call log must satisfy the contract (Drain and callback unregistration before Stop, no Read after Stop, Close exactly once and only at Fini); at every Resume exactly the modes the application enabled are on again. Configurations: one entry per mode-signature class of the 45 ECMA-48-family entries (thorough: every entry) x TCELL_ALTSCREEN unset/disable. distinct_nontrivial = distinct reachable states"
	w.R.Assumptions = []string{"terminal registers are those of the reference emulator (ref/vt)", "which features an entry has follows tcell's documented rule (mouse capability or xterm name => xterm extensions)", "a Suspend/Fini call is reported as hung only after 120 s with the whole process idle for 60 s"}
	entries := common.Entries()
	o := ops()
	type cfg struct {
		e   common.Entry
		alt bool
	}
	var cfgs []cfg
	seen := map[string]bool{}
	sort.SliceStable(entries, func(i, j int) bool { return entries[i].Name == "xterm-256color" && entries[j].Name != "xterm-256color" })
	for _, e := range entries {
		if !isFamily(e.Ti) {
			continue
		}
		sg := modeSignature(e.Ti)
		if !hc.Thorough() && *hc.Replay == "" && seen[sg] {
			continue
		}
		seen[sg] = true
		cfgs = append(cfgs, cfg{e, true}, cfg{e, false})
	}
	w.R.Scenarios["mode_signature_classes"] = len(seen)
	w.R.Scenarios["configurations"] = len(cfgs)
	if *hc.Shard == 0 && *hc.Replay == "" {
		for _, e := range entries {
			if e.Name == "xterm-256color" || e.Name == "vt100" {
				resumeBeforeInit(e)
			}
		}
	}
	if *hc.Replay != "" {
		var rp struct {
			Config string
			Alt    bool
			Ops    []int
		}
		hc.LoadReplay(&rp)
		for _, c := range cfgs {
			if c.e.Name == rp.Config && c.alt == rp.Alt {
				s := newSys(c.e.Ti, c.alt, o)
				for _, i := range rp.Ops {
					n := len(s.tty.Blocks)
					sg, d := s.Apply(i)
					fmt.Println(o[i])
					for _, b := range s.tty.Blocks[n:] {
						fmt.Printf("   wrote %q\n", b)
					}
					if sg != "" {
						fmt.Printf("VIOLATION property=C04 replay=%s\n  %s: %s\n", *hc.Replay, sg, d)
						break
					}
				}
				s.Close()
			}
		}
		return
	}
	depth := 5
	if hc.Thorough() {
		depth = 10
	}
	for ci, c := range cfgs {
		c := c
		mainCfg := c.e.Name == "xterm-256color"
		_ = mainCfg
		if !hc.Mine(ci) {
			continue // the space of one configuration is small and confluent: one shard closes it
		}
		if w.Expired() {
			break
		}
		d := depth
		if c.e.Name != "xterm-256color" && !hc.Thorough() {
			d = 3
			// xterm's own smcup/rmcup also push and pop the title, which hides an unbalanced
			// save/restore by the screen; the xterm-like entries whose smcup does not are searched one level deeper
			if ti := c.e.Ti; ti.XTermLike && ti.SetWindowTitle == "" && !strings.Contains(ti.EnterCA, "[22;") {
				d = 4 // SetTitle; Suspend; Resume; Fini
			}
		}
		tag := fmt.Sprintf("%s/altscreen=%v", c.e.Name, c.alt)
		ecfg := &seq.Config{Name: tag, NOps: len(o), Depth: d, OpName: func(i int) string { return o[i].String() },
			New:  func() seq.Sys { return newSys(c.e.Ti, c.alt, o) },
			Stop: w.Expired, MaxViolationSigs: 8,

			OnViolation: func(sig, desc string, hist []int) {
				var names []string
				for _, x := range hist {
					names = append(names, o[x].String())
				}
				w.Violation(sig, fmt.Sprintf("%s: %s\n history: %s", tag, desc, strings.Join(names, "; ")), map[string]interface{}{"Config": c.e.Name, "Alt": c.alt, "Ops": hist})
			}}
		st := seq.Explore(ecfg)
		w.R.States += st.States
		w.R.Transitions += st.Transitions
		w.R.Executions += st.Transitions
		if st.Stopped {
			w.NotExhaustive(tag + " stopped early")
		}
		if c.e.Name == "xterm-256color" {
			sum := st.Summary()
			sum["depth_cap"] = d
			w.R.Scenarios[tag] = sum
			for _, h := range st.SampleHist {
				w.Sample(map[string]interface{}{"config": tag, "history": h})
			}
		}
	}
	if n := atomic.LoadInt32(&stuck); n > 0 {
		w.Violation("shutdown-hang", fmt.Sprintf("%d shutdown calls did not return within 30 s", n), nil)
	}
	for i := int64(0); i < w.R.States; i++ {
		w.Distinct(uint64(*hc.Shard)<<40 | uint64(i))
	}
	w.Finish()
}
