#!/bin/sh
# tools/gobuild.sh <pkg> <out>: build a package of /verif against /repo with the export overlay (for scratch use)
cd /verif
export GOFLAGS=-mod=mod GOPROXY=off GOSUMDB=off GOTOOLCHAIN=local GOWORK=off GOCACHE=/verif/.cache/gocache
cat > .cache/overlay-scratch.json <<EOT
{"Replace": {"/repo/zz_verif_export.go": "/verif/export/tcell_export.go", "/repo/zz_verif_export_native.go": "/verif/export/tcell_export_native.go", "/repo/zz_verif_export_wasm.go": "/verif/export/tcell_export_wasm.go", "/repo/terminfo/zz_verif_export.go": "/verif/export/terminfo_export.go"}}
EOT
go build -tags verif -overlay .cache/overlay-scratch.json -o "$2" "$1"
