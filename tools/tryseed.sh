#!/bin/sh
# usage: tools/tryseed.sh <patch.diff> <check> [check ...]
# Applies a patch to a scratch worktree of /repo (never to /repo itself), runs the named quick
# checks against it and removes the worktree again.
patch=$1; shift
wt=$(mktemp -d /tmp/ts-XXXXXX); rmdir $wt
git -C /repo worktree add -q --detach $wt HEAD || exit 2
trap 'git -C /repo worktree remove --force $wt; git -C /repo worktree prune' EXIT
git -C $wt apply $patch || { echo "patch does not apply"; exit 2; }
for c in "$@"; do
  out=$(VERIF_REPO=$wt VERIF_NOEVIDENCE=1 /verif/vc $c --tier ${TIER:-quick} 2>&1); rc=$?
  echo "== $c exit=$rc"; echo "$out" | grep "signature:" | sort | uniq -c | head -8; echo "$out" | tail -1 | cut -c1-300
done
