#!/usr/bin/env python3
"""Self-test: applies each deliberate property-breaking change from mutants/mutants.json to a
scratch git worktree of /repo (never to /repo itself), checks that the repository's own
tests still pass there, and that the named check reports a VIOLATION.

usage: tools/mutants.py [id ...]     (no ids = all)      env JOBS=n for parallelism
"""
import json, os, subprocess, sys, tempfile, shutil, concurrent.futures as cf

ROOT = "/verif"
ENV = dict(os.environ, GOFLAGS="-mod=mod", GOPROXY="off", GOSUMDB="off", GOTOOLCHAIN="local")

def sh(cmd, **kw):
    return subprocess.run(cmd, shell=True, stdout=subprocess.PIPE, stderr=subprocess.STDOUT, text=True, env=ENV, **kw)

import threading
wt_lock = threading.Lock()

def run(m):
    d = tempfile.mkdtemp(prefix="mut-", dir="/tmp")
    os.rmdir(d)
    res = {"id": m["id"], "property": m["property"]}
    try:
        with wt_lock:
            r = sh(f"git -C /repo worktree add --detach {d} HEAD")
        if r.returncode != 0:
            res["status"] = "worktree failed: " + r.stdout[-300:]
            return res
        for e in m["edits"]:
            p = os.path.join(d, e["file"])
            s = open(p).read()
            if s.count(e["old"]) != 1:
                res["status"] = f"edit does not apply ({s.count(e['old'])} matches) in {e['file']}: {e['old'][:60]!r}"
                return res
            open(p, "w").write(s.replace(e["old"], e["new"]))
        r = sh(f"cd {d} && go build ./... && go test -vet=off -count=1 ./... 2>&1 | grep -v 'no test files'")
        for _ in range(3):
            # the repository's TestTerminfoDelay measures wall-clock time and fails on a loaded machine
            if "FAIL" in r.stdout and "TestTerminfoDelay" in r.stdout and r.stdout.count("--- FAIL") == 1:
                r = sh(f"cd {d} && go test -vet=off -count=1 ./... 2>&1 | grep -v 'no test files'")
        tests_ok = "FAIL" not in r.stdout and r.returncode == 0
        res["repo_tests_pass"] = tests_ok
        if not tests_ok:
            res["status"] = "repository tests fail or build broken: " + r.stdout[-400:]
            return res
        tier = m.get("tier", "quick")
        r = sh(f"cd {ROOT} && VERIF_REPO={d} VERIF_NOEVIDENCE=1 ./vc {m['property']} --tier {tier}")
        res["exit"] = r.returncode
        viol = [l for l in r.stdout.splitlines() if l.startswith("VIOLATION")]
        res["violations"] = len(viol)
        sigs = [l.strip() for l in r.stdout.splitlines() if l.strip().startswith("signature:")]
        res["first"] = sigs[:2]
        res["status"] = "DETECTED" if r.returncode == 1 and viol else "MISSED (exit %d): %s" % (r.returncode, r.stdout[-300:])
        return res
    finally:
        with wt_lock:
            sh(f"git -C /repo worktree remove --force {d}")
        shutil.rmtree(d, ignore_errors=True)

def main():
    ms = json.loads(open(os.path.join(ROOT, "mutants", "mutants.json")).read(), strict=False)
    want = sys.argv[1:]
    if want:
        ms = [m for m in ms if m["id"] in want or m["property"] in want]
    jobs = int(os.environ.get("JOBS", "1"))
    with cf.ThreadPoolExecutor(jobs) as ex:
        out = list(ex.map(run, ms))
    bad = 0
    for r in out:
        print(f"{r['id']:40s} {r['property']}  {r['status']}  {r.get('first','')}")
        if r["status"] != "DETECTED":
            bad += 1
    print(f"{len(out)-bad}/{len(out)} detected")
    sh("git -C /repo worktree prune")
    sys.exit(1 if bad else 0)

main()
