#!/usr/bin/env python3
"""Regenerates MANIFEST.json from the table below (kept in one place so that the manifest
is always valid and in step with what is built)."""
import json, subprocess, sys

BASELINE = "cd /repo && go test -mod=mod -json -vet=off -count=1 -timeout 25m ./..."

CHECKS = {
 "C08": dict(level="model_checking",
   technique="explicit-state BFS over CellBuffer API histories on the real code vs reference model",
   text="Exhaustive breadth-first exploration of all operation histories up to depth 3-4 (quick) / 4-5 (thorough) over seven sharp alphabets (wide-rune neighbourhood, in/out-of-range coordinates, ColorNone styles, combining slices mutated by the caller, resize, control/invalid runes, empty buffer) on the real CellBuffer; after every transition every observation (Size, GetContent, Dirty on -1..W x -1..H) is compared with a boring reference model. States are merged only on equal private+model state. Bounded in depth, exhaustive within it.",
   note="go-runewidth widths are trusted (the statement refers to them); a->b->a dirtiness is left unspecified by the statement and accepted either way; depth-bounded.",
   design="2/C08"),
 "C16": dict(level="exploration",
   technique="exhaustive enumeration of complete input domains (2^24 RGB values, 256 indices, all names) against independent references",
   text="Complete enumeration: all 256 palette indices against the xterm formula, every colour keyword in both directions against an embedded W3C table, all 2^24 RGB values through every conversion round trip, and FindColor for all 2^24 colours (thorough; quick: 2^18 lattice + palette neighbourhoods) against the 8/16/88/256-entry palettes plus 32 seeded palettes (empty, duplicates), compared with an independent CIELAB/CIE76 minimiser. Input domains are finite and fully covered in the thorough tier, so this is a decision, not a sample.",
   note="near-ties within 0.02 deltaE accepted (reference uses Lindbloom's sRGB matrix); the 16 ANSI colours are the published chart values; random palettes are seeded by VERIF_SEED.",
   design="2/C16"),
 "C03": dict(level="exploration",
   technique="exhaustive enumeration of the live terminal database x key capabilities x modifier parameters x concatenations through the real parser",
   text="Complete (not sampled) over the database: for each of the registered entries (names and aliases enumerated from the live map through a verif accessor) every populated Key* capability found by reflection, every xterm modifier parameter 2..16 on every cursor/editing/function key, all C0 bytes and DEL, ESC-prefixed forms, lone ESC with timeout, all ordered pairs (thorough: triples over a 40-sequence subset) of sequences concatenated, and all pairs of built table keys for the proper-prefix relation; each decode repeated 8 times to expose map-iteration dependence. Decoding goes through the real collectEventsFromInput via a synchronous verif entry.",
   note="Key assignment is read from the entry's field names; when a sequence has two readings the statement supports (description capability and xterm modifier encoding) either is accepted; the synchronous entry bypasses timers, the timeout is the explicit expire call.",
   design="2/C03"),
 "C12": dict(level="exploration",
   technique="exhaustive enumeration of mouse reports (all button codes x finals x coordinate classes x introducers x parser states) plus BFS over report histories, against an independent xterm-protocol decoder",
   text="SGR: all 256 button codes x M/m x 10x10 coordinate classes (negative, zero, inside, edge, beyond, multi-digit) x 7-bit/8-bit introducer x both button-state flags on two screen sizes; X11: all 2^24 (Cb,Cx,Cy) byte triples in the thorough tier (256x16x16 quick); histories: every sequence up to depth 4 (6 thorough) of press/release/drag/motion/wheel reports per encoding; batches: every sequence of 2-3 (4) items out of SGR and X11 reports with both introducers and plain keys delivered in ONE read (each report must consume exactly its own bytes). Expected values come from a decoder written from xterm's ctlseqs, with tcell's button numbering.",
   note="Button masks the statement does not fix (wheel left/right, buttons 8-11, malformed X11 button bytes) are not compared; X11 drag reports appear in histories only while a press is outstanding.",
   design="2/C12"),
 "C02": dict(level="exploration",
   technique="exhaustive enumeration of byte strings and token strings x read partitions through the real parser, with parser-state comparison and witness shrinking; plus deviation-bounded schedule exploration of the real read pipeline for read partitions in flight",
   text="Per terminal description (quick: one representative per distinct input signature; thorough: every entry): all byte strings over the 27-byte branching alphabet of the parsers up to length 3-4 (thorough 4-5) from the initial state, all strings up to length 9 over a 4-6 byte alphabet (deep OSC 52 logic), all strings up to length 2 (3) from the state after every proper prefix of every token (non-initial start states), and all token strings up to length 3; each under one read, every two-chunk split and byte-wise, comparing events, unconsumed bytes and parser flags after the feeds and after the timeout (nothing may stay buffered), plus compositionality of self-delimiting tokens. Exhaustive within those bounds; witnesses are shrunk to a canonical minimal form. A second worker group runs the real inputLoop/mainLoop under the controlled scheduler (Engine B): one key/escape-sequence stream reaches the screen through Tty.Read in 5 partitions while the application is not polling (several reads in flight between the goroutines), every schedule within 2 deviations (thorough 3); the delivered events must be those of the single-read delivery.",
   note="Uses the synchronous verif entry to collectEventsFromInput (same code path as mainLoop, no timers). The all-partitions claim rests on two-chunk splits + full state equality (induction); longer strings than the bounds are not covered.",
   design="2/C02"),
 "C11": dict(level="exploration",
   technique="exhaustive enumeration of every encodable code point of every stateless charset x read partitions through the real parser; plus deviation-bounded schedule exploration of the real read pipeline for split characters in flight",
   text="For each of the 24 stateless charsets (22 registered + US-ASCII + UTF-8): every printable code point that round-trips through the codec (thorough: the whole Unicode range; quick: up to U+2FFFF for UTF-8/GB18030), as a one-character text under one read, every two-chunk split and byte-wise; plus all texts of length <=3 over 8 representatives per charset under every split, bare, inside paste brackets and with focus reports between characters, on entries with and without paste support. A second worker group runs the real inputLoop/mainLoop under the controlled scheduler: one UTF-8 text (1-, 2-, 3-byte characters) delivered through Tty.Read in 4 partitions with characters split across reads while the application is not polling, every schedule within 2 deviations (thorough 3); the delivered runes must be the typed text in order.",
   note="x/text and gdamore/encoding codecs define the charsets (trusted base); U+FFFD excluded; ISO-2022-JP and HZ excluded by the statement.",
   design="2/C11"),
 "C07": dict(level="exploration",
   technique="exhaustive enumeration of database strings x parameter domains and of a bounded terminfo(5) program grammar x parameter vectors, against a reference interpreter cross-checked with ncurses tparm",
   text="(1) every distinct parameterized string found in the live database, in LookupTerminfo's synthesized colour strings and among the sequences tcell prepares for itself, over its whole parameter domain; (2) all programs of a bounded grammar covering every operator, format, %i, dynamic/static variables across calls and all conditional structures to nesting depth 2 (thorough 3) with else-if chains, x 72 integer / 6 string parameter vectors (about 40k program sequences); (3) all byte strings up to length 5 (6) over the language's 16-symbol alphabet for panics. TParm is compared with a reference interpreter written from terminfo(5); the reference is validated against ncurses tparm on every integer-only case (millions, zero disagreements tolerated silently - any is reported).",
   note="Cases the manual leaves undefined are counted, not compared; ncurses is reached through python3's curses module (if unavailable the run says so in its notes); bounded program size.",
   design="2/C07"),
 "C15": dict(level="exploration",
   technique="exhaustive enumeration of padding strings (with a virtual clock), of all entries x positions and of all entries x colour pairs, decoded by per-family reference decoders",
   text="TPuts: every string up to length 7 (8) over the padding alphabet on terminals with and without a pad character; written bytes must be in the set the statement allows and the recorded (virtual) sleep must equal the sum of the well-formed specifications. TGoto: every database entry x all 301x301 positions against the addressing convention of the entry. TColor: every colour entry x all 302x302 (fg,bg) pairs decoded through the reference terminal's SGR interpreter (folding onto 0-7 on 8-colour terminals, eliding negative / out-of-range components). Complete over the stated domains.",
   note="terminfo.go is built with package time replaced by a virtual clock (overlay, AST rewrite of the import only); ill-formed-but-terminated padding may be treated either way; non-SGR colour strings are not decoded.",
   design="2/C15"),
 "C14": dict(level="model_checking",
   technique="complete static enumeration of the live database + explicit exploration of all ordered lookup pairs (triples over a subset) from a restored database under every environment setting",
   text="Static: every registered name and alias (listed from the live map) resolves to an entry with cursor addressing; every parameterized field is a well-formed terminfo program using at most the parameters tcell supplies; unparameterized fields carry no parameter constructs; Colors agrees with the colour strings, each index decoded through the reference SGR interpreter; key table prefix-free. Histories: about 340 names (registered x variant suffixes + unknown names); for every ordered pair under 6 (thorough 12) COLORTERM/TCELL_TRUECOLOR settings the second lookup's result must deep-equal the same lookup on a freshly restored database, and each single lookup is checked against the documented synthesis / environment semantics. States = (database state after one lookup), transitions = lookups executed on the real LookupTerminfo.",
   note="Database snapshot/restore is a verif accessor (deep copy); tcell.LookupTerminfo's infocmp fallback is outside the built-in database and not exercised.",
   design="2/C14"),
 "C20": dict(level="model_checking",
   technique="explicit-state BFS over ViewPort operation histories and BoxLayout edit histories plus complete enumeration of child lists, observed through recording parent/child views",
   text="ViewPort: breadth-first search (depth 3, thorough 4; states merged on the complete reported geometry) over 82 operations on three parent sizes; after every transition all 100 content cells of -1..8^2 are pushed through a copy of the viewport and each resulting parent write must be exactly the translated cell inside the viewport rectangle, Fill must cover exactly the rectangle, and adjusted offsets must equal the clamped value. BoxLayout: every child list of length 1..4 over preferred {0,1,3} x fill {0,.5,1,2} x extents 0..12 x both orientations (thorough also all 5-child lists and 8-child lists over a reduced alphabet), BFS over Add/Insert/Remove/Resize/SetOrientation histories to depth 4 (5), and a nested layout; recording children paint their whole view plus a one-cell halo and the recording parent checks order, disjointness, containment, preferred extents and exact floor/ceil proportional surplus.",
   note="Geometry is read through the public getters; fill factors non-negative; depth-bounded histories.",
   design="2/C20"),
 "C01": dict(level="model_checking",
   technique="explicit-state BFS over draw histories on the real terminfo screen; fake Tty -> reference VT emulator compared with an independent shadow model after every Show/Sync/resize",
   text="Breadth-first search with full-state keys (private screen state + reference terminal grid and registers + model bookkeeping) over nine scenario alphabets (wide-rune neighbourhood from a blank and from a painted screen, 10-style colour/attribute/underline/hyperlink set, colour cache without direct colour, cursor position/shape/colour from blank and painted screens, lock regions, window size changes by Show and by notification with Sync and external corruption, a mixed alphabet with out-of-range coordinates and control runes) on the real tScreen; after every Show, Sync and resize redraw the reference terminal's grid must equal the expected display computed from the shadow model (CIE76-nearest colours computed independently, ties accepted) and the cursor must be where/what was requested. Quick: reference configuration xterm-256color at depth 3-5 with and without direct colour plus one representative per draw-feature class of the 45 ECMA-48-family entries at depth 2-3; thorough: every family entry x direct colour on/off, one level deeper.",
   note="The reference terminal and shadow model are this project's reading of ECMA-48/xterm ctlseqs (deferred wrap, wide-character overwrite semantics, BCE); capabilities are derived from the entry with tcell's documented 'mouse or xterm name => xterm extensions' rule; SetStyle makes equality demanded only from the next full redraw; depth-bounded.",
   design="2/C01"),
 "C13": dict(level="model_checking",
   technique="same explicit-state exploration as C01 with per-cell write stamps in the reference terminal: cells written by a Show block must be a subset of the allowed set",
   text="Same state space as C01. For every Show block the set of cells whose write stamp is the block must be contained in: cells a store changed (or that were unlocked) since the previous Show, cells whose expected display differs from the expected display at the previous Show (this is how columns covered/uncovered by wide runes enter), the other column of such wide runes, and the helper cells of the bottom-right insert-character detour; locked cells must never be written. A Show with no change writes no cell.",
   note="Same trusted base as C01; a->b->a between two Shows counts as changed (the statement does not fix it).",
   design="2/C13"),
 "C09": dict(level="exploration",
   technique="exhaustive enumeration of every code point as cell content (via SetContent and Fill, 4 locales, 2 terminals, 2 screen sizes) through a strict output tokenizer, plus explicit-state draw histories with the tokenizer on every block",
   text="Part 1 (complete): every rune from -2 to 0x110001 plus MinInt32/MaxInt32 as primary content through SetContent (every column, including the last) and through Fill, on 3x1 and 2x1 screens, in UTF-8, ISO8859-1, US-ASCII and GBK locales, on a DEC-ACS terminal (xterm-256color) and one without (sun): the reference terminal's strict tokenizer must accept every byte, no control function may take effect (bell, shift, charset, title, scroll), no C0/DEL/C1 may arrive as text, and runes that must be blanked show a blank. Part 2: BFS over draw histories (wide runes, styles, resize/corruption, mixed, and an extreme-values alphabet with long combining lists, odd colours, urls containing ; and %) with the tokenizer applied to every write block, which must end in the ground state. Part 3: for every ECMA-48-family entry x {UTF-8, ISO8859-1} x direct colour on/off one fixed walk through every capability the screen writes (init, mouse/paste/focus modes, all styles, cursor shapes and colour, title, clipboard, beep, clear, sync, resize, suspend/resume, fini): the stream must tokenize and every character printed as text must be accounted for by cell content (anything else is residue of a capability string such as a padding specification).",
   note="The tokenizer is the reference terminal's parser (complete CSI/OSC/ESC grammar, numeric parameters only, valid charset bytes); zero-width classification follows go-runewidth as the statement says.",
   design="2/C09"),
 "C17": dict(level="exploration",
   technique="exhaustive enumeration of BMP runes x 24 charsets x 4 terminal classes through the real draw path into a charset-aware reference terminal, plus BFS over fallback registration histories",
   text="For each of the 24 stateless charsets and four terminal classes (DEC ACS via ESC ( 0, DEC ACS via SO/SI, CP437 alternate font, no ACS) every BMP rune from U+0020 (+64 supplementary) is drawn as cell content and, when it is a zero-width mark, as a combining rune; the reference terminal decodes the written bytes in the same charset with the alternate character set interpreted through the entry's acsc pairs; the shown glyph must be the rune (if the codec round-trips it), else its ACS glyph, else the registered fallback, else '?', padded to the rune's width, the output must be valid in the charset (no raw UTF-8, no 0x1A), and CanDisplay must agree with the same decision. A second sweep covers every ECMA-48-family entry of the database (not only the class representatives) x {US-ASCII, ISO8859-1, KOI8-R} x every rune with a DEC special-graphics identity: the row must show exactly that glyph (or fallback / '?') and nothing else. Fallback registration changes are explored as histories (depth 4/5) with a redraw after each change.",
   note="x/text / gdamore/encoding codecs define the charsets (runes where the codec is asymmetric are skipped and counted); glyphs the description maps to the same ACS byte are treated as the same glyph; fallback strings are of the rune's width as the API requires.",
   design="2/C17"),
 "C04": dict(level="model_checking",
   technique="explicit-state search over mode-changing API histories with Suspend/Resume/Fini on the real screen; reference terminal registers and the Tty call log are the observed state",
   text="Breadth-first search with full-state keys (private screen state, reference terminal registers, application-state model) over 23 operations (EnableMouse with five flag sets, DisableMouse, paste and focus on/off, six cursor style/colour settings, SetTitle, Show/HideCursor, draw+Show, Suspend, Resume, Fini) to depth 5 on xterm-256color (thorough 10, where the frontier closes) and depth 3 on one representative per mode-signature class of the 45 family entries (thorough: every entry), each with TCELL_ALTSCREEN unset and disabled. At every Suspend and Fini the reference terminal's registers must be back to the pre-engage values and the Tty call log must satisfy the contract; at every Resume exactly the application's modes must be on again.",
   note="Registers are those of the project's reference terminal; a Suspend/Fini call is declared hung only after 120 s with the whole process idle for 60 s (load cannot trigger it); the quick tier is depth-bounded (evidence reports whether the frontier closed).",
   design="2/C04"),
 "C18": dict(level="model_checking",
   technique="explicit-state BFS over draw/SetSize/cursor/lock histories on the real SimulationScreen against the shared shadow model, plus exhaustive enumeration of injectable characters per charset and of short Inject* sequences",
   text="Draw histories (depth 4, thorough 5; states merged on GetContents + private logical buffer + model) in UTF-8, ISO8859-1 and US-ASCII over a wide-rune/style/fallback alphabet (from the initial state and from a screen already shown once) and a SetSize/cursor/lock alphabet: after every Show/Sync the reported physical cells must equal the shadow model (Runes, resolved Style, Bytes under the fallback chain), GetCursor must reflect ShowCursor, SetSize must preserve the overlap and yield exactly one EventResize with the new size. Injection: every printable BMP character (thorough: to U+2FFFF) of all 24 stateless charsets through InjectKeyBytes alone, all 2- and 3-character texts over representatives of every encoded length (multi-byte last), and all sequences up to length 3 of InjectKey/InjectMouse/InjectKeyBytes, compared with PollEvent's output order.",
   note="Cells covered by a wide rune, locked cells and trailing padding of Bytes are not compared; the cursor reset by SetSize is followed, not judged.",
   design="2/C18"),
 "C06": dict(level="model_checking",
   technique="stateless DFS over thread schedules of the real inputLoop/mainLoop/shutdown code under a controlled scheduler (AST-instrumented build), deviation-bounded, with state-key pruning; deadlock = violation",
   text="tscreen.go/screen.go are rewritten at build time (sync, time, go statements, channel operations, select) so that every synchronisation operation of the real code is a scheduling point owned by the explorer; tty reads, timers and the clock are virtual. About 230 members of the shutdown family (Fini or Suspend x event-queue level 0..10 x chunks offered 0..13 x consumer polling or stopped, plus pending resize, tty read error at the 1st-3rd read, concurrent poster, concurrent drawer, Suspend/Resume cycles) are each explored exhaustively up to 2 deviations (thorough 3) from the canonical schedule - a deviation is a preemption, an early timer firing or a non-first ready select arm; which blocked thread resumes is explored without bound. A deterministic prologue fills the real-capacity queues, branching starts when the shutdown caller is spawned. Every execution must end with the shutdown caller finished, PollEvent not parking after Fini, ChannelEvents closed, both library goroutines gone, later calls not panicking, and input/resize working after Resume.",
   note="Scheduling points are synchronisation operations (sequential consistency between them); pruning merges states with equal thread-local histories, queue contents, protected screen state and tty state (argument in rt/sched/sched.go); bounded deviations; evidence reports whether each member completed its bound.",
   design="2/C06"),
 "C05": dict(level="model_checking",
   technique="stateless DFS over thread schedules of the real input pipeline (inputLoop -> chunk queue -> mainLoop -> event queue -> PollEvent/ChannelEvents) under the controlled scheduler, deviation-bounded with state-key pruning; sequence-number oracle at quiescence",
   text="Instrumented build as for C06 (plus virtual time in the event constructors). Families: slow consumer (11-23 keys typed while the application does not poll, real queue capacities, branching starts when the consumer starts), free interleaving of a feeder, up to two posters and a resize notifier with a polling consumer, HasPendingEvent-then-PollEvent, ChannelEvents with quit or Fini, posts against a nearly full queue, and key sequences split across reads. Every schedule within 2 deviations (1 for the families with several racing producers; thorough +1) is executed; at quiescence the delivered keys must be exactly the typed sequence in order, each poster's events in posting order, PostEvent nil iff delivered exactly once, PollEvent after a true HasPendingEvent must not wait, ChannelEvents must forward an in-order prefix and close, and When() must lie between arrival and delivery on the virtual clock.",
   note="EventResize is outside the exactly-once claim (the code drops it when the queue is full by design); split-sequence decoding is not judged when the virtual escape timer fired in between; same scheduler trusted base as C06.",
   design="2/C05"),
 "C10": dict(level="model_checking",
   technique="schedule exploration of all API-call pairs under the controlled scheduler in a -race build with the scheduler's hand-offs hidden from ThreadSanitizer, so every explored schedule is also checked by the happens-before race detector",
   text="Every unordered pair (including a call with itself) of 33 Screen methods runs on two threads against a live terminfo screen with input traffic and a resize notification (UTF-8 locale; and again, for the pairs containing a drawing or charset-dependent call, in a locale whose encoder is stateful - HZ-GB2312 - so that the shared encoder object is written by every use), and every pair of the 25 methods meaningful on SimulationScreen against a simulation screen; thorough adds all triples over 12 state-mutating calls. Each program is executed under the controlled scheduler for schedules within 1 deviation (quick: first 6 schedules per program, thorough 300). The build uses -race; the scheduler brackets its baton hand-offs with runtime.RaceDisable/RaceEnable and keeps the program's own sync operations real, so ThreadSanitizer sees exactly the program's happens-before relation in every schedule. Reports are keyed by the pair of tcell functions at the racing accesses; an access inside a library the screen calls (x/text encoder, bytes.Buffer ...) is attributed to the calling tcell function; reports whose access frames lie in the harness or scheduler are discarded. Also checked: no panic, no lock deadlock, each Show/Sync reaches the tty as exactly one well-formed Write.",
   note="ThreadSanitizer's bounded history can miss but never invents a race; race detection is happens-before based, so the schedule bound only serves to reach code paths; prepareKeys' write to a shared Terminfo entry needs two screens and is not exercised.",
   design="2/C10"),
 "C19": dict(level="model_checking",
   technique="build obligation for js/wasm + explicit-state exploration executed inside the wasm program under Node with recording JavaScript stand-ins",
   text="The check first compiles the package for GOOS=js GOARCH=wasm from the current tree (a compile error is the violation, with the compiler output as replay). The worker then runs under Node: BFS (depth 4, thorough 5) over draw histories on the real wasm screen, rebuilding the page grid from the recorded drawCell calls and comparing it with the shadow model (text with combining runes, 24-bit colours with the xterm-like values for the 16 basic colours, attribute bits, underline style/colour) after every Show/Sync and requiring drawn cells to be changed cells; every key name of WebKeyNames and printable keys x all 16 modifier combinations; both mouse callbacks x button codes x modifier sets x all 8 enabled-flag sets; paste/focus callbacks enabled and disabled; all 340 orders of Suspend/Resume/SetSize/Fini up to length 4, probing after each call that the screen lock was released (a held lock wedges every later call); and all 4680 sequences up to length 4 (thorough 5) over EnableMouse(all|buttons)/DisableMouse/EnablePaste/DisablePaste/EnableFocus/Suspend/Resume with key, click, motion, paste and focus callbacks probed after every step at which the screen is running (mouse honoured exactly for the enabled modes, also after Resume).",
   note="tcell.js itself is replaced by recording functions installed from Go; default colours and wide runes in the last column are not compared; a call that blocks inside itself would end the worker with the Go runtime's deadlock report, which the driver turns into a violation.",
   design="2/C19"),
 # --- new checks above this line ---
}

NOT_YET = {
}

def main():
    props = [json.loads(l) for l in open("/verif/properties.jsonl")]
    checks = []
    na = []
    for p in props:
        pid = p["id"]
        if pid in CHECKS:
            c = CHECKS[pid]
            checks.append({
                "property_id": pid,
                "quick_cmd": "./vc %s --tier quick" % pid,
                "thorough_cmd": "./vc %s --tier thorough" % pid,
                "evidence_file": "/verif/evidence/%s.json" % pid,
                "replay_cmd_template": "./vc replay {path}",
                "engine": c.get("engine", "vcheck"),
                "level_claimed": {"category": c["level"], "text": c["text"], "design_ref": c.get("design", "")},
                "level_note": c["note"],
                "technique": c["technique"],
            })
        else:
            na.append({"property_id": pid, "reason": NOT_YET.get(pid, "check not built yet in this tree (planned in DESIGN.md section 2); not claimed until its harness exists and passes")})
    m = {
        "version": 1,
        "setup_cmd": "./setup.sh",
        "hooks": {
            "guard": "verif",
            "enable": "go build -tags verif -overlay <generated overlay.json>: export accessors and the instrumented (scheduler-hooked) copies of tscreen.go/screen.go/simulation.go are injected at build time from /verif; nothing guarded lives in /repo",
            "baseline_off_cmd": BASELINE,
            "source_commits": [],
            "add_only": True,
        },
        "engines": [
            {"name": "seq", "path": "seq/", "serves_properties": ["C08"], "kind_free_text": "explicit-state BFS over API histories of the real code with replay-on-fresh-instance successors and full-state keys"},
        ],
        "checks": checks,
        "not_applicable": na,
        "notes": "All checks are driven by ./vc (cmd/vcheck); workers are rebuilt from /repo's working tree on every run. Fix commits in /repo are listed in known_findings.json.",
    }
    json.dump(m, open("/verif/MANIFEST.json", "w"), indent=1)
    print("wrote MANIFEST.json with", len(checks), "checks,", len(na), "not_applicable")

main()
