#!/usr/bin/env python3
"""Validates a seeded breaking change written by a sub-agent and records it under /verif/seeded/<id>/.

usage: tools/seedcheck.py Cxx [extra-check ...]
Takes $SEED_ROOT/Cxx/_seed (default /tmp/seed; records as seeded/Cxx$SEED_SUFFIX)/{patch.diff, *_test.go|*.go demo, NOTES.md}; in a fresh scratch worktree
of /repo: (1) applies the patch, builds, runs the repository's tests (must pass);
(2) runs the demonstration with the patch (must fail) and without it (must pass);
(3) runs the property's quick check (and any extra checks) against the patched worktree.
Nothing is ever applied to /repo itself."""
import json, os, re, subprocess, sys, shutil, glob, tempfile

ENV = dict(os.environ, GOFLAGS="-mod=mod", GOPROXY="off", GOSUMDB="off", GOTOOLCHAIN="local")

def sh(cmd, cwd=None, timeout=1800):
    r = subprocess.run(cmd, shell=True, cwd=cwd, stdout=subprocess.PIPE, stderr=subprocess.STDOUT, text=True, env=ENV, timeout=timeout)
    return r.returncode, r.stdout

def main():
    pid = sys.argv[1]
    extra = sys.argv[2:]
    global ROOT, SUFFIX
    ROOT = os.environ.get("SEED_ROOT", "/tmp/seed")      # round 2: SEED_ROOT=/tmp/seed2 SEED_SUFFIX=b
    SUFFIX = os.environ.get("SEED_SUFFIX", "")
    src = f"{ROOT}/{pid}/_seed"
    patch = os.path.join(src, "patch.diff")
    if not os.path.exists(patch):
        print("no patch.diff for", pid); sys.exit(2)
    wt = tempfile.mkdtemp(prefix=f"sc-{pid}-", dir="/tmp"); os.rmdir(wt)
    meta = {"property": pid, "source": "fresh sub-agent given only the property text and a private worktree"}
    try:
        rc, out = sh(f"git -C /repo worktree add --detach {wt} HEAD")
        assert rc == 0, out
        rc, out = sh(f"git apply {patch}", cwd=wt)
        meta["patch_applies"] = rc == 0
        if rc != 0:
            print("patch does not apply:", out); meta["status"] = "rejected: patch does not apply"; return finish(pid, src, meta, None)
        rc, out = sh("go build ./... && go test -vet=off -count=1 ./... 2>&1 | grep -v 'no test files'", cwd=wt)
        meta["repo_tests_pass_with_patch"] = rc == 0 and "FAIL" not in out
        # demo: find go files in _seed, locate the package dir from the agent's live copy
        demos = [f for f in glob.glob(os.path.join(src, "*.go")) if "audit" not in os.path.basename(f)]  # audit tests of the unchanged tree are not demonstrations
        meta["demo_files"] = [os.path.basename(d) for d in demos]
        demo_results = {}
        for d in demos:
            base = os.path.basename(d)
            live = [p for p in glob.glob(f"{ROOT}/{pid}/**/{base}", recursive=True) if "/_seed/" not in p]
            pkgline = [l for l in open(d) if l.startswith("package ")][0].split()[1]
            if live:
                rel = os.path.dirname(os.path.relpath(live[0], f"{ROOT}/{pid}"))
            else:
                # the agent removed its live copy: place the demo by its package clause
                base_pkg = pkgline[:-5] if pkgline.endswith("_test") else pkgline
                rel = {"terminfo": "terminfo", "views": "views", "encoding": "encoding"}.get(base_pkg, ".")
            if pkgline == "main":
                ddir = os.path.join(wt, "_seeddemo"); os.makedirs(ddir, exist_ok=True)
                shutil.copy(d, os.path.join(ddir, "main.go"))
                runcmd = "go run ./_seeddemo"
                race = "-race" if "race" in open(os.path.join(src, "NOTES.md")).read().lower() and pid == "C10" else ""
            else:
                shutil.copy(d, os.path.join(wt, rel, base))
                names = re.findall(r"^func (Test\w+)\(", open(d).read(), re.M)
                race = "-race" if pid == "C10" else ""
                target = "./" + rel if rel != "." else "."
                if "syscall/js" in open(d).read():
                    runcmd = f"GOOS=js GOARCH=wasm go test -vet=off -c -o /tmp/{pid}.wasm {target} && /usr/bin/nodejs $(go env GOROOT)/misc/wasm/wasm_exec_node.js /tmp/{pid}.wasm -test.run '^({'|'.join(names)})$'; rc=$?; rm -f /tmp/{pid}.wasm; exit $rc"
                else:
                    runcmd = f"go test {race} -vet=off -count=1 -timeout 300s -run '^({'|'.join(names)})$' {target}"
            rc1, out1 = sh(runcmd, cwd=wt)
            sh(f"git apply -R {patch}", cwd=wt)
            rc0, out0 = sh(runcmd, cwd=wt)
            sh(f"git apply {patch}", cwd=wt)
            demo_results[base] = {"cmd": runcmd, "fails_with_patch": rc1 != 0, "passes_without_patch": rc0 == 0,
                                  "tail_with_patch": out1[-600:], "tail_without_patch": out0[-300:]}
            # remove the demo again so that it does not disturb the checks
            if pkgline == "main":
                shutil.rmtree(os.path.join(wt, "_seeddemo"), ignore_errors=True)
            else:
                os.remove(os.path.join(wt, rel, base))
        meta["demo"] = demo_results
        checks = {}
        for c in [pid] + extra:
            rc, out = sh(f"VERIF_REPO={wt} VERIF_NOEVIDENCE=1 ./vc {c} --tier quick", cwd="/verif")
            sigs = [l.strip()[len("signature: "):] for l in out.splitlines() if l.strip().startswith("signature:")]
            checks[c] = {"exit": rc, "detected": rc == 1 and "VIOLATION" in out, "signatures": sigs[:6], "tail": out[-400:] if rc != 1 else ""}
        meta["checks"] = checks
        ok = meta["repo_tests_pass_with_patch"] and demo_results and all(v["fails_with_patch"] and v["passes_without_patch"] for v in demo_results.values())
        meta["status"] = "accepted" if ok else "rejected: " + ("repository tests fail with the patch" if not meta["repo_tests_pass_with_patch"] else "demonstration does not fail-with/pass-without")
        return finish(pid, src, meta, demos)
    finally:
        sh(f"git -C /repo worktree remove --force {wt}")
        shutil.rmtree(wt, ignore_errors=True)
        sh("git -C /repo worktree prune")

def finish(pid, src, meta, demos):
    notes = os.path.join(src, "NOTES.md")
    if os.path.exists(notes):
        meta["needs_to_manifest"] = open(notes).read()[:3000]
    print(json.dumps({k: v for k, v in meta.items() if k not in ("needs_to_manifest",)}, indent=1)[:3000])
    if meta.get("status") == "accepted":
        dst = f"/verif/seeded/{pid}{SUFFIX}"
        os.makedirs(dst, exist_ok=True)
        shutil.copy(os.path.join(src, "patch.diff"), dst)
        for d in demos or []:
            shutil.copy(d, os.path.join(dst, os.path.basename(d) + ".txt"))  # .txt: must not be compiled as part of /verif
        if os.path.exists(notes):
            shutil.copy(notes, dst)
        json.dump(meta, open(os.path.join(dst, "meta.json"), "w"), indent=1)
        print("recorded in", dst)

main()
