#!/usr/bin/env python3
"""Batch oracle: evaluates terminfo parameterized strings with ncurses' tparm.
stdin: one case per line, "<hex of program> <int> <int> ..."; stdout: hex of the result, or "!" on error.
Only integer parameters are supported (python's binding), so callers send integer-only programs."""
import sys, curses
curses.setupterm("xterm")
out = []
for line in sys.stdin:
    p = line.split()
    if not p:
        continue
    prog = bytes.fromhex(p[0])
    args = [int(x) for x in p[1:]]
    try:
        r = curses.tparm(prog, *args)
        out.append(r.hex() if r else "")
    except Exception as e:
        out.append("!")
sys.stdout.write("\n".join(out) + "\n")
