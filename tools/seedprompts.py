#!/usr/bin/env python3
"""Writes the per-property prompts for a round of sub-agent seeds/audits to /tmp/seed7/Cxx.prompt.txt.
The prompts carry only the property text, the deviations already known and the labels of earlier seed ideas - nothing else from /verif."""
import json
known = {
"C01":["one-column screens on insert-character-corner terminals (sun, cygwin, beterm) address column -1","88-colour terminals are fitted against the first 88 entries of the 256-colour table","SetStyle does not repaint StyleDefault cells until the next Sync (accepted reading)","combining lists are written unchecked (the statement limits them to zero-width marks)","wide rune next to / under a locked cell","underline colours are sent as RGB / 256-colour index even where the foreground is fitted (separate capability, accepted)","a wide rune whose right half is the bottom-right cell, and direct bottom-right writes on terminals without ich1 (immediate-wrap hardware is not modelled)","an entry with Colors==0 never gets direct colour from COLORTERM","Style.Attributes(AttrInvalid) is painted with the leftover pen","Init on a 0x0 window (custom Tty only)"],
"C02":["rxvt: ESC [ O (focus out) is a prefix of Ctrl-arrow keys","a byte that can never start a rune is held until the timeout","Suspend/Resume drops buffered bytes but keeps the pending-Alt flag","EncodingFallbackUTF8 with an unregistered codeset swallows non-ASCII keys","the EventError of a failed read overtakes keys read before it"],
"C03":["wy50/wy60 ESC ^A loses Ctrl","st kclr = CSI 3;5~ decodes as Ctrl-Delete (clause conflict)","rxvt focus-out prefix of Ctrl-arrows","ESC ESC key is read as Alt+Esc followed by the key"],
"C04":["TCELL_ALTSCREEN=disable: title changed but never saved/restored","CSI > 2 t title mode never reset","failed tty.Start leaves the resize callback registered","concurrent Suspend/Fini or Suspend/Resume from two goroutines","NewStdIoTty leaves stdin O_NONBLOCK","devTty.Stop returns early when restoring a hung-up tty fails","Fini after a failed Init panics"],
"C05":["ChannelEvents drops the event it holds when quit closes","Suspend drops decoded-but-undelivered events","PostEvent after Fini","read-error event overtakes earlier input","a resize event is dropped when the queue is full","rxvt Ctrl-arrow split across reads"],
"C06":["PollEvent after Fini may hand out queued events before nil","Fini after a failed Init panics (nil quit channel)","Beep/SetSize/SetClipboard/GetClipboard write to the tty while suspended or finished","Resume racing Suspend's unlocked window (WaitGroup reuse)","a second Suspend or Fini during a Suspend in progress returns at once","devTty.Stop leaks its SIGWINCH goroutine after a hang-up","NewStdIoTty: input dead after Suspend/Resume (O_NONBLOCK)"],
"C07":["%x/%X/%o of negative values, %#x of 0, %s width/precision counting runes, %<width>c as UTF-8 (Go fmt vs C printf)","static variables are unsynchronised package state","%{-2} not parsed as negative"],
"C08":["GetContent returns the internal combining slice","Resize to the current size is a no-op (cells stay clean, locks kept)","Resize with negative dimensions","a style-only change of a wide rune does not dirty its covered column","a->b->a after a clean stays dirty","unlocking a never-locked cell dirties it"],
"C09":["SetTitle / URL strings are not sanitised (outside cell content)","SetSize with negative arguments","PC-style ACS maps (ansi, pcansi, cygwin) emit C0 bytes for arrows/diamond by design of those descriptions","SetContent stores combining lists unchecked (caller's obligation)"],
"C10":["SimulationScreen.GetContents returns the live cell array (documented, tests rely on it)","Suspend/Resume/Fini called concurrently with each other","svars in terminfo is unsynchronised (needs two screens)","two screens constructed concurrently race on the shared Terminfo entry (XTermLike)","Beep/SetSize/SetClipboard write to a stopped tty"],
"C11":["a character split by more than the 50 ms escape timeout is torn","Suspend drops decoded events","EncodingFallbackUTF8 drops non-ASCII","rxvt: focus-out followed by a..d is a Ctrl-arrow","character sets with shift states (ISO-2022-JP, HZ-GB-2312) are not handled per character","KOI8-U 0xAE/0xBE table choice of x/text"],
"C12":["8-bit CSI reports in single-byte locales are taken as U+009B","button codes with bit 7 (buttons 8-11) alias to buttons 1-3","coordinates overflowing int","0x0 window gives (-1,-1)","legacy X11 parser does not track button state","after Suspend/resize/Resume Size() is stale until the next Show","a WindowSize() error leaves a stale clip size"],
"C13":["the bottom-right detour writes a locked neighbour","wide rune drawn over a locked right neighbour","a resize drops every lock (by design of CellBuffer.Resize)","unlocking the hidden half of a wide rune does not repaint","SetSize with the current size repaints everything","a->b->a between two Shows repaints","Sync() erases locked cells","a resize notification with an unchanged size repaints","unlocking never-locked cells repaints them","one-column screens on insert-character-corner terminals"],
"C14":["tcell.LookupTerminfo (infocmp path) returns other errors than ErrTermNotFound and registers what it finds","TCELL_TRUECOLOR=disable leaves the RGB strings of entries that have their own (xterm-direct)","NAME-256color is only synthesized from NAME-color / NAME-88color","monochrome base with -truecolor has Colors 0 but RGB strings","prepareKeys sets XTermLike on the shared entry","every TCELL_TRUECOLOR value other than disable enables direct colour","the infocmp loader decodes \\0 as NUL"],
"C15":["TPuts strips malformed $<...> groups too (three-valued in the statement)","more than one fraction digit / huge numbers in a padding specification"],
"C16":["cyan and magenta missing from ColorNames","PaletteColor(>255) is valid but has no value: Hex -1, CSS \"#-00001\", TrueColor all ones","GetColor accepts signed hex, NewHexColor does not mask","Name()/String() nondeterministic for gray/grey","invalid palette members take part in FindColor","FromImageColor of translucent colours (premultiplied alpha)","PaletteColor(negative)","GetColor is case-sensitive for names"],
"C17":["fallback strings of another width than the rune (API requires same width) and non-ASCII fallback strings bypass the encoder","wide unrepresentable rune with a representable combining rune is not padded","Register/Unregister do not repaint cells already shown","x/text GB18030 private-use mappings","East-Asian ambiguous width with RUNEWIDTH_EASTASIAN","title and hyperlink text are written as UTF-8 in a legacy locale","ACS position i is mapped to the section sign (RuneLantern)","ISO-2022-JP: kanji are written as ? (6-byte encode buffer); HZ-GB-2312 is unusable per cell","GB 2312-80 vs GBK table differences at 38 code points"],
"C18":["SetSize resets the cursor position (and leaves the visible flag)","registered fallback for a combining rune is applied by the simulator but elided by the real screen","Tab/CR/BS injected as bytes carry ModCtrl","unencodable wide rune gives \"?\" not \"? \"","InjectKey/InjectKeyBytes block once 10 events are pending","ISO2022JP: the simulator's 12-byte buffer encodes what the real screen's 6-byte buffer cannot"],
"C19":["underline without colour is sent as black","wide runes leave the covered column on the page","Suspend/Resume/Show leaves the page blank","SetSize blocks when 10 events are queued; the 11th input callback blocks inside JavaScript (fatal deadlock when nothing else runs)","clearScreen passes Hex() instead of the palette value","button codes >= 4 bypass the motion filter; clicks are not delivered with drag reporting alone","Ctrl+h/i/m/[ arrive as the letter with ModCtrl","tcell.js: a click is never followed by a release; offsetX is relative to the event target"],
"C20":["ViewPort.Resize does not re-validate the scroll offset and computes the size from a rejected origin","wide rune in a ViewPort's last column covers the next column","fill factors overflowing float64","RemoveWidget skips an adjacent duplicate","a growing ViewPort records the largest index drawn as its content size (off by one); NewViewPort(-1,-1) starts with content size -1x-1","Panel reports its preferred size for the wrong axis until drawn once","TextBar swallows its parts' content events"],
}
used = {
 "C01":["hyperlink emission only when the url changes","hidden-column re-dirtying removed","cursor on-screen test moved to ShowCursor","resize handler not invalidating","curstyle reset moved from draw to engage","sendFgBg returning after an RGB background before a palette foreground"],
 "C02":["pending-Alt flag cleared when buffer drains","shared inputLoop read buffer","parseClipboard not consuming","escape timeout ignored during paste","parseRune giving up after 3 buffered bytes","control-key loop registering a byte that also starts multi-byte keys (wy50)"],
 "C03":["control-byte registration loop","KeyClear registration order","escaped flag cleared at rescan","match window too short for modified F-keys","shared read buffer","parseRune's printable range excluding DEL"],
 "C04":["restore before waiting for goroutines","Disable* forgetting intent while suspended","title pushed once","disable-focus fallback only for XTermLike","cursorColorSent not set for palette colours","cursorShown flag skipping cnorm in disengage"],
 "C05":["resize arm in scanInput","shared read buffer","ChannelEvents inner select without StopQ","PostEvent len() then blocking send","buildMouseEvent returning a nil event","PollEvent skipping stale EventResize"],
 "C06":["read-error select without stop arm","scanInput without stop arm","quit closed only while running","stopQ replaced by a refused Resume","resize() blocking on a full queue with the lock held","ChannelEvents hand-over without the StopQ arm"],
 "C07":["conditional nesting counter","%c as UTF-8","PopInt losing sign","memoised TParm","%i only with two int parameters","Push converting digit strings to numbers"],
 "C08":["combining slice reused","Resize fast path copying locks","Dirty forgetting style fields","lock as counter","Fill merging ColorNone into the shared style","Latin-1 fast path in cellWidth"],
 "C09":["cached width in Fill","flagged padding as text","encoder error trusted","palette >= 256 through RGB strings","Latin-1 width fast path in SetContent","showCursor hiding only when both coordinates are negative"],
 "C10":["collectEventsFromInput unlocked","CanDisplay unlocked","draw unlocking around write","Size unlocked","SetContent reusing the combining array GetContent handed out","resize callback reading running unlocked"],
 "C11":["parseRune byte-range test","shared read buffer","parseFocus only with mouse","parseFocus consuming from the end","locale variable set-but-empty","0x9B rewritten to ESC ["],
 "C12":["wheel clearing button-down","8-bit CSI byte count","clip with stale size","legacy parser only if kmous ends in M","legacy drag losing its button in buildMouseEvent","release masking bits 4-7 of the button code"],
 "C13":["LockRegion clamping","equal-length combining change","LINES/COLUMNS after early-out","Fill loop crossing row end","corner detour look-behind","draw() advancing x before marking the hidden half dirty"],
 "C14":["copy-before-amend","TCELL_TRUECOLOR switch position","dropped entry package","case-insensitive names","xterm-direct Colors 1<<24","TrimRight instead of slicing off the suffix"],
 "C15":["%c","TPuts closing >","memoised TColor","shared TParm buffer","LookupTerminfo bumping Colors to 256","AddTerminfo defaulting PadChar to NUL"],
 "C16":["FindColor early exit","FindColor memoised by palette length","Hex without valid guard","FromImageColor /0x101","RGB() table missing index 255","cyan/magenta added with the ANSI (dark) values"],
 "C17":["encodeRune memoised","string(byte) ACS glyph","first set locale variable","enacs only with alt screen","combining runes encoded into an empty buffer","CanDisplay answering before the ACS lookup"],
 "C18":["InjectKeyBytes prefix bound","Bytes[:0]","SetSize debouncing","shared fallback table","CellBuffer.Resize keeping cells clean","InjectMouse dropping a repeated report"],
 "C19":["clean-cell width","mouseFlags across Suspend","SetSize holding lock","Ctrl lower-casing key names","paletteColor masking RGB values 1..15","postEvent dropping when the queue is full"],
 "C20":["ViewPort.Resize clamp","largest-remainder loop","InsertWidget deferring layout","unsigned bounds check","SetContentSize validating only when locked","layout() early-out when the view size is unchanged"],
}
tmpl = """You are working on the Go library gdamore/tcell (a terminal cell-based screen library). A scratch git worktree of it is at /tmp/seed7/{id} — do ALL your work only inside that directory. Do not read, list or modify /repo or /verif (they are off limits), and do not create files elsewhere except temporary files under /tmp/seed7/{id}.

Environment (no network): run every go command with
  export GOFLAGS=-mod=mod GOPROXY=off GOSUMDB=off GOTOOLCHAIN=local
The existing test suite is `go test -vet=off -count=1 ./...` (run from the worktree root); it passes on the unchanged tree (one timing-sensitive test, TestTerminfoDelay, can fail spuriously when the machine is heavily loaded — re-run it if that happens).

IMPORTANT: never use `git stash` (the stash is shared with sibling worktrees used by other people). To test both directions, save your change with `git diff -- <files> > _seed/patch.diff`, revert with `git apply -R _seed/patch.diff`, re-apply with `git apply _seed/patch.diff`.

Here is a semantic property of tcell that is supposed to hold:

---
{prop}
Code mechanisms that are meant to make it hold: {mech}
---

You have TWO tasks. Task A carries more weight.

TASK A — AUDIT the unchanged tree against the property. This tree has already been audited several times and many defects were repaired; the following deviations are ALREADY KNOWN (recorded or judged to be outside the statement) — do not report them again:
{known}
Look for something NEW: read the code the property is anchored in clause by clause of the statement and dimension by dimension of the quantifier; write small programs that ENUMERATE (all built-in terminal descriptions, all operations of the quantifier in sequences of length 2-4, boundary sizes 0/1/2, all values of small domains) and compare against an oracle you write independently from the statement — systematic enumeration finds what reading misses. Only report what you have actually reproduced with a test on the unchanged tree: exact call sequence / input bytes / environment, what happens, what the statement demands, the lines responsible. Up to five findings; say clearly if you found none. Do NOT fix them.

TASK B — SEED a realistic, small change (about 1-15 lines, library source only) that BREAKS the property, such that (a) `go build ./...` works, (b) the existing test suite still passes, (c) the breakage needs something specific to manifest (not what a trivial smoke test would expose), (d) it differs in clause, function and trigger from these earlier ideas: {ulist}. Write a DEMONSTRATION test file in the relevant package that FAILS with your change and PASSES on the unchanged tree (verify both directions with `git apply -R` / `git apply`; no wall-clock dependence to pass); keep a copy in the package directory where it runs, named *seed*demo*_test.go. {extra}

Deliverables — put them in /tmp/seed7/{id}/_seed/ :
  patch.diff   : `git diff` of the library change ONLY
  the demo file (copy) with a comment on how to run it (do NOT put audit tests as .go files into _seed/; inline their source in NOTES.md)
  NOTES.md     : Task A findings with reproduction test source inline; Task B: change, why it breaks the property, what is needed to manifest, commands run with results.
Leave the library change applied in the worktree when you finish and remove throw-away audit tests from the package directories. Your final message: first the audit findings (Task A) precisely, then a short summary of the seeded change (Task B) and its verifications."""
extras = {
 "C10": "For a data race, the demonstration may be a test run with `go test -race` that makes the race detector report (fails) with the change and is clean without it.",
 "C19": "This property is about the js/wasm backend (wscreen.go). Build with `GOOS=js GOARCH=wasm go build ./` and run wasm test binaries under Node: `GOOS=js GOARCH=wasm go test -vet=off -c -o t.wasm . && /usr/bin/nodejs $(go env GOROOT)/misc/wasm/wasm_exec_node.js t.wasm -test.run YourTest` (install JS functions such as drawCell/clearScreen/show/showCursor/resize from Go with js.Global().Set(name, js.FuncOf(...)), or as pure JavaScript via js.Global().Call(\"eval\", ...), before using the screen).",
 "C05": "Goroutine interleavings matter here; tests may use a fake tcell.Tty passed to tcell.NewTerminfoScreenFromTtyTerminfo and force an order with channels.",
 "C06": "Goroutine interleavings / full queues / read errors matter here; tests may use a fake tcell.Tty passed to tcell.NewTerminfoScreenFromTtyTerminfo; detect a hang with a generous timeout (>= 10 s).",
}
for l in open('/verif/properties.jsonl'):
    p=json.loads(l); pid=p['id']
    prop="%s — %s\n\nStatement: %s\n\nQuantified over: %s\n\nFiles the property is anchored in: %s\n" % (pid,p['title'],p['statement'],p['quantifier']['text'],', '.join(p['anchors']['files']))
    mech='; '.join("%s (%s)"%(m.get('name'),m.get('where')) for m in p['anchors']['mechanism'])
    ulist='; '.join("(%d) %s"%(i+1,u) for i,u in enumerate(used[pid]))
    kn='\n'.join("  - "+x for x in known[pid])
    open('/tmp/seed7/%s.prompt.txt'%pid,'w').write(tmpl.format(id=pid,prop=prop,mech=mech,ulist=ulist,known=kn,extra=extras.get(pid,"")))
print("ok")
