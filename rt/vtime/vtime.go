// Package vtime replaces package time inside instrumented copies of tcell's sources
// (import path github.com/gdamore/tcell/v2/verifrt/vtime, added through the build overlay).
// Types are aliases of the real ones; the clock, sleeping and timers are virtual and owned
// by the harness, so no check ever depends on wall-clock time.
package vtime

import (
	"sync"
	"time"

	"github.com/gdamore/tcell/v2/verifrt"
)

type (
	Duration = time.Duration
	Time     = time.Time
)

const (
	Nanosecond  = time.Nanosecond
	Microsecond = time.Microsecond
	Millisecond = time.Millisecond
	Second      = time.Second
	Minute      = time.Minute
	Hour        = time.Hour
)

var (
	mu     sync.Mutex
	now    = time.Unix(1000000, 0)
	slept  Duration
	sleeps int
)

// Hooks, set by the scheduler runtime when it is linked in; nil means "plain virtual time".
var (
	// OnNow is called on every Now(); the scheduler uses it for nothing but determinism checks.
	OnNow func()
)

// Now returns the virtual clock, advancing it by one microsecond so that successive
// readings are strictly increasing (as with a real clock).
func Now() Time {
	if verifrt.Active() {
		return verifrt.Now()
	}
	mu.Lock()
	defer mu.Unlock()
	now = now.Add(Microsecond)
	return now
}

// Advance moves the virtual clock forward.
func Advance(d Duration) {
	mu.Lock()
	now = now.Add(d)
	mu.Unlock()
}

// Sleep records the request and advances the virtual clock; it never blocks.
func Sleep(d Duration) {
	mu.Lock()
	if d > 0 {
		slept += d
		now = now.Add(d)
	}
	sleeps++
	mu.Unlock()
}

// Slept returns the total duration requested through Sleep since the last ResetSleep.
func Slept() (Duration, int) {
	mu.Lock()
	defer mu.Unlock()
	return slept, sleeps
}

func ResetSleep() {
	mu.Lock()
	slept, sleeps = 0, 0
	mu.Unlock()
}

func Since(t Time) Duration { return Now().Sub(t) }
func Unix(s, ns int64) Time { return time.Unix(s, ns) }

// ---- timers: virtual when a controlled execution is active ----

type Timer struct {
	C <-chan Time
	v *verifrt.Timer
}

func NewTimer(d Duration) *Timer {
	v := verifrt.NewTimer(d)
	return &Timer{C: v.C, v: v}
}

func (t *Timer) Stop() bool            { return t.v.Stop() }
func (t *Timer) Reset(d Duration) bool { return t.v.Reset(d) }
