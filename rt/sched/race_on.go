//go:build race
// +build race

package verifrt

import "runtime"

//go:norace
func raceDisable() { runtime.RaceDisable() }

//go:norace
func raceEnable() { runtime.RaceEnable() }

// RaceBuild reports whether the race detector is compiled in.
const RaceBuild = true
