//go:build !race
// +build !race

package verifrt

func raceDisable() {}
func raceEnable()  {}

// RaceBuild reports whether the race detector is compiled in.
const RaceBuild = false
