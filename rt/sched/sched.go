// Package verifrt is the controlled scheduler linked into instrumented builds of tcell
// (import path github.com/gdamore/tcell/v2/verifrt, added through the build overlay; never
// part of the repository). Exactly one managed goroutine runs at a time; before every
// synchronisation operation (mutex, channel, select, WaitGroup, Once, timer, blocking Tty
// read) the goroutine parks and the explorer decides who runs next. The program's own
// synchronisation operations are then executed for real, so the race detector still sees
// the program's happens-before relation; the scheduler's hand-offs are hidden from it with
// runtime.RaceDisable/RaceEnable.
//
// Language level: go1.12 (it is compiled as part of the tcell module).
package verifrt

import (
	"fmt"
	"reflect"
	"runtime"
	"sort"
	"sync"
	"time"
)

type OpKind int

const (
	OpStart OpKind = iota
	OpLock
	OpSend
	OpRecv
	OpClose
	OpSelect
	OpWait
	OpOnce
	OpBlock
	OpYield
)

var opNames = []string{"start", "lock", "send", "recv", "close", "select", "wgwait", "once", "block", "yield"}

// Case is one arm of a rewritten select.
type Case struct {
	Send bool
	Ch   interface{}
}

func R(ch interface{}) Case { return Case{false, ch} }
func S(ch interface{}) Case { return Case{true, ch} }

type thread struct {
	id      int
	name    string
	daemon  bool
	wake    chan struct{}
	kind    OpKind
	obj     uintptr
	ch      reflect.Value
	cases   []Case
	hasDef  bool
	cond    func() bool
	what    string
	done    bool
	granted int    // case index chosen for a select
	hash    uint64 // hash of this thread's causal past (happens-before)
	expect  string // if set: the thread's next operation must be enabled when it parks
}

// Point is one scheduling decision of an execution.
type Point struct {
	Kind           string // "thread", "case", "timer"
	Options        []string
	N              int
	NThreads       int // options [0,NThreads) are threads, the rest are timers firing
	Chosen         int
	RunningEnabled bool
}

// Outcome describes how an execution ended.
type Outcome struct {
	Hashes     []uint64
	Window     int
	Points     []Point
	Choices    []int
	Deadlock   bool
	Blocked    []string // essential threads that could not finish (deadlock)
	AllBlocked []string
	StepLimit  bool
	Steps      int
	Leaked     int
	Panic      string
}

// Sched is one controlled execution.
type Sched struct {
	mu       sync.Mutex
	threads  []*thread
	cur      *thread
	yield    chan *thread
	held     map[uintptr]int // mutex -> holder id
	closed   map[uintptr]bool
	timers   []*Timer
	prefix   []int
	points   []Point
	choices  []int
	aborting bool
	steps    int
	MaxSteps int
	exited   sync.WaitGroup
	now      time.Time
	panicMsg string
	// OnStep, if set, is called by the scheduler before every decision (all threads parked).
	OnStep   func()
	window   int // points before this index belong to the deterministic prologue
	chans    map[uintptr]*chanState
	objHash  map[uintptr]uint64 // last operation on each synchronisation object
	nameHash map[string]uint64  // same for named (harness-declared) objects
	hashes   []uint64           // state hash at every decision point
}

// active is the execution in progress; nil means pass-through (hooks do nothing).
var active *Sched

//go:norace
func cur() (*Sched, *thread) {
	s := active
	if s == nil || s.aborting {
		return nil, nil
	}
	return s, s.cur
}

// park hands control to the scheduler and waits for the next grant.
//
//go:norace
func (s *Sched) park(t *thread) {
	raceDisable()
	s.yield <- t
	<-t.wake
	raceEnable()
	if s.aborting {
		runtime.Goexit()
	}
}

func chanID(ch interface{}) (uintptr, reflect.Value) {
	v := reflect.ValueOf(ch)
	if v.Kind() != reflect.Chan {
		panic(fmt.Sprintf("verifrt: %T is not a channel", ch))
	}
	return v.Pointer(), v
}

// ---- hooks called from instrumented code ----

// Go replaces the go statement.
//
//go:norace
func Go(fn func()) { GoNamed("", true, fn) }

// GoNamed starts a managed goroutine; harness threads are not daemons.
//
//go:norace
func GoNamed(name string, daemon bool, fn func()) {
	s := active
	if s == nil || s.aborting {
		go fn()
		return
	}
	t := &thread{id: len(s.threads), name: name, daemon: daemon, wake: make(chan struct{}), kind: OpStart}
	if s.cur != nil {
		s.cur.hash = mix(s.cur.hash, uint64(t.id), 5)
		t.hash = mix(s.cur.hash, uint64(t.id), 6)
	}
	if t.name == "" {
		t.name = fmt.Sprintf("tcell-goroutine-%d", t.id)
	}
	s.threads = append(s.threads, t)
	born := make(chan struct{})
	s.exited.Add(1)
	go func() {
		defer s.exited.Done()
		defer func() {
			if r := recover(); r != nil {
				buf := make([]byte, 4096)
				n := runtime.Stack(buf, false)
				s.panicMsg = fmt.Sprintf("panic in %s: %v\n%s", t.name, r, buf[:n])
				t.done = true
				if !s.aborting {
					raceDisable()
					s.yield <- t
					raceEnable()
				}
			}
		}()
		raceDisable()
		close(born)
		<-t.wake
		raceEnable()
		if s.aborting {
			return
		}
		fn()
		t.done = true
		if !s.aborting {
			raceDisable()
			s.yield <- t
			raceEnable()
		}
	}()
	raceDisable()
	<-born
	raceEnable()
}

//go:norace
func BeforeLock(m uintptr) {
	s, t := cur()
	if s == nil {
		return
	}
	t.kind, t.obj = OpLock, m
	s.park(t)
	s.held[m] = t.id
}

//go:norace
func AfterUnlock(m uintptr) {
	s, t := cur()
	if s == nil {
		return
	}
	delete(s.held, m)
	if t != nil {
		s.touchObj(t, m, 21)
	}
}

//go:norace
func BeforeSend(ch interface{}) {
	s, t := cur()
	if s == nil {
		return
	}
	t.kind = OpSend
	t.obj, t.ch = chanID(ch)
	s.park(t)
}

//go:norace
func BeforeRecv(ch interface{}) {
	s, t := cur()
	if s == nil {
		return
	}
	t.kind = OpRecv
	t.obj, t.ch = chanID(ch)
	s.park(t)
}

//go:norace
func BeforeClose(ch interface{}) {
	s, t := cur()
	if s == nil {
		return
	}
	t.kind = OpClose
	t.obj, t.ch = chanID(ch)
	s.park(t)
	s.closed[t.obj] = true
}

// Select replaces a select statement: it returns the index of the arm to execute (-1 for
// the default arm). The arm then performs the real channel operation, which cannot block.
//
//go:norace
func Select(hasDefault bool, cases ...Case) int {
	s, t := cur()
	if s == nil {
		return passSelect(hasDefault, cases)
	}
	t.kind, t.cases, t.hasDef = OpSelect, cases, hasDefault
	s.park(t)
	return t.granted
}

// passSelect implements select with reflection when no execution is active.
func passSelect(hasDefault bool, cases []Case) int {
	sc := make([]reflect.SelectCase, 0, len(cases)+1)
	for _, c := range cases {
		// readiness only: the arm performs the operation itself, so peek with len/cap
		_ = c
	}
	for {
		for i, c := range cases {
			v := reflect.ValueOf(c.Ch)
			if c.Send {
				if v.Len() < v.Cap() {
					return i
				}
			} else if v.Len() > 0 {
				return i
			}
		}
		if hasDefault {
			return -1
		}
		_ = sc
		runtime.Gosched()
		time.Sleep(50 * time.Microsecond)
	}
}

// Block parks the calling thread until cond() holds (evaluated by the scheduler while every
// thread is parked). Used by the fake Tty's Read and by harness threads.
//
//go:norace
func Block(what string, cond func() bool) {
	s, t := cur()
	if s == nil {
		for !cond() {
			time.Sleep(50 * time.Microsecond)
		}
		return
	}
	t.kind, t.cond, t.what = OpBlock, cond, what
	s.park(t)
}

// Yield is a plain scheduling point.
//
//go:norace
func Yield(what string) {
	s, t := cur()
	if s == nil {
		return
	}
	t.kind, t.what = OpYield, what
	s.park(t)
}

// WaitPoint parks until cond (used by vsync.WaitGroup.Wait and vsync.Once).
//
//go:norace
func WaitPoint(kind OpKind, what string, cond func() bool) {
	s, t := cur()
	if s == nil {
		return
	}
	t.kind, t.cond, t.what = kind, cond, what
	s.park(t)
}

// ExpectEnabled declares that the calling thread's next synchronisation operation must not
// have to wait (e.g. PollEvent right after HasPendingEvent reported true); if it would, the
// execution fails with msg.
//go:norace
func ExpectEnabled(msg string) {
	s, t := cur()
	if s == nil || t == nil {
		return
	}
	t.expect = msg
}

// Window marks the end of the deterministic prologue: the explorer branches only at
// scheduling points after this call.
//
//go:norace
func Window() {
	if s := active; s != nil && !s.aborting {
		s.window = len(s.points)
	}
}

// Quiesce parks the caller until no other thread can run and no timer is armed: the
// system has gone as far as it can without the caller.
//
//go:norace
func Quiesce() {
	s, t := cur()
	if s == nil {
		return
	}
	t.kind, t.what = OpBlock, "quiesce"
	t.cond = func() bool {
		for _, o := range s.threads {
			if o != t && !(o.kind == OpBlock && o.what == "quiesce") && s.enabled(o) {
				return false
			}
		}
		for _, x := range s.timers {
			if x.armed {
				return false
			}
		}
		return true
	}
	s.park(t)
}

// Alive lists the threads that have not finished (name@operation).
//
//go:norace
func Alive(daemonsOnly bool) []string {
	s := active
	if s == nil {
		return nil
	}
	var out []string
	for _, t := range s.threads {
		if !t.done && t != s.cur && (!daemonsOnly || t.daemon) {
			out = append(out, s.describe(t))
		}
	}
	return out
}

// CurrentName returns the name of the running thread.
//
//go:norace
func CurrentName() string {
	s := active
	if s == nil || s.cur == nil {
		return ""
	}
	return s.cur.name
}

// Active reports whether a controlled execution is in progress (and not being torn down).
//
//go:norace
func Active() bool {
	s := active
	return s != nil && !s.aborting
}

// Aborting reports whether the current execution is being torn down.
//
//go:norace
func Aborting() bool {
	s := active
	return s != nil && s.aborting
}

// ---- virtual timers (used by vtime) ----

type Timer struct {
	C     chan time.Time
	armed bool
	when  time.Time
	id    int
	hash  uint64
}

//go:norace
func (t *Timer) touch(kind uint64) {
	if s, th := cur(); s != nil && th != nil {
		h := mix(th.hash, t.hash, kind<<8|uint64(th.id))
		th.hash, t.hash = h, mix(t.hash, th.hash, kind)
	}
}

//go:norace
func NewTimer(d time.Duration) *Timer {
	t := &Timer{C: make(chan time.Time, 1)}
	s := active
	if s == nil {
		return t
	}
	t.id = len(s.timers)
	t.armed, t.when = true, s.now.Add(d)
	s.timers = append(s.timers, t)
	return t
}

//go:norace
func (t *Timer) Stop() bool {
	t.touch(11)
	was := t.armed
	t.armed = false
	return was
}

//go:norace
func (t *Timer) Reset(d time.Duration) bool {
	t.touch(12)
	was := t.armed
	t.armed = true
	if s := active; s != nil {
		t.when = s.now.Add(d)
	}
	return was
}

// Now is the virtual clock: strictly increasing, jumped forward when a timer fires.
//
//go:norace
func Now() time.Time {
	s := active
	if s == nil {
		return time.Unix(1000000, 0)
	}
	s.now = s.now.Add(time.Microsecond)
	return s.now
}

// ---- state keys for pruning ----
//
// The key of a global state is built from
//   - every thread's local history hash: the operations it performed, which select arm was
//     taken, and the identity of every value it received or observed (see below), plus
//     whether it finished and what it is parked on;
//   - every channel: the identities of the values still queued (in order) and closedness;
//   - every mutex / named harness object / timer: the hash chain of the critical sections
//     (operations) performed on it, in order - data protected by a mutex is a function of
//     the sequence of critical sections, each of which is a function of its thread's local
//     history.
// A value sent on a channel is identified by the sender's local history at the send, so a
// receiver's history depends on what it received, not on when. Two schedules that reach the
// same key have the same thread-local states, the same queue contents and the same
// protected data, hence the same futures (for programs whose shared data is protected by
// the hooked objects - unsynchronised accesses are C10's subject, where pruning is off).

func mix(a, b, c uint64) uint64 {
	h := a*0x9E3779B97F4A7C15 ^ (b + 0x7F4A7C15F39CC060 + (a << 6) + (a >> 2))
	h ^= c + 0x632BE59BD9B4E019 + (h << 6) + (h >> 2)
	h *= 0xFF51AFD7ED558CCD
	h ^= h >> 33
	return h
}

type chanState struct {
	queued []uint64 // identities of the values in the buffer, oldest first
	sends  uint64
	closed bool
}

//go:norace
func (s *Sched) chanOf(id uintptr) *chanState {
	c := s.chans[id]
	if c == nil {
		c = &chanState{}
		s.chans[id] = c
	}
	return c
}

//go:norace
func (s *Sched) doSend(t *thread, id uintptr) {
	c := s.chanOf(id)
	c.sends++
	v := mix(t.hash, 41, c.sends)
	c.queued = append(c.queued, v)
	t.hash = mix(t.hash, 42, 0)
}

//go:norace
func (s *Sched) doRecv(t *thread, id uintptr) {
	c := s.chanOf(id)
	if len(c.queued) > 0 {
		t.hash = mix(t.hash, 43, c.queued[0])
		c.queued = c.queued[1:]
	} else {
		t.hash = mix(t.hash, 44, 0) // receive from a closed channel
	}
}

//go:norace
func (s *Sched) doClose(t *thread, id uintptr) {
	s.chanOf(id).closed = true
	t.hash = mix(t.hash, 45, 0)
}

// HashStates switches the computation of state keys on (needed for pruning only).
var HashStates = true

// DataHash, if set by the harness for the current execution, returns a hash of the shared
// data the program's mutexes protect (evaluated while every thread is parked). With it, a
// lock acquisition folds the data the thread can now read into its local history and the
// global key contains the data itself; without it the order of critical sections is used
// (always sound, but it distinguishes orders of critical sections that commute).
var DataHash func() uint64

// EnvHash, if set, hashes harness-owned environment state (fake tty queues, window size)
// that is part of the global state but is not read under the program's mutexes.
var EnvHash func() uint64

// touchObj: an operation of t on a mutex-like object.
//
//go:norace
func (s *Sched) touchObj(t *thread, obj uintptr, kind uint64) {
	if !HashStates {
		return
	}
	if DataHash != nil {
		t.hash = mix(t.hash, DataHash(), kind)
		return
	}
	t.hash = mix(t.hash, s.objHash[obj], kind)
	s.objHash[obj] = mix(s.objHash[obj], t.hash, kind)
}

//go:norace
func (s *Sched) touchName(t *thread, name string, kind uint64) {
	t.hash = mix(t.hash, s.nameHash[name], kind)
	s.nameHash[name] = mix(s.nameHash[name], t.hash, kind)
}

// Touch declares an operation of the running thread on a named shared object of the
// harness (fake tty queues, result records), so that it is part of the state key.
//
//go:norace
func Touch(name string) {
	s, t := cur()
	if s == nil || t == nil {
		return
	}
	s.touchName(t, name, 99)
}

// Note folds a value the running thread computed or observed into its local history.
//
//go:norace
func Note(v uint64) {
	s, t := cur()
	if s == nil || t == nil {
		return
	}
	t.hash = mix(t.hash, 98, v)
}

// DebugComponents, when non-nil, receives the components of every state hash (diagnostics).
var DebugComponents func(parts map[string]uint64)

//go:norace
func (s *Sched) stateHash() uint64 {
	if DebugComponents != nil && len(s.points) >= s.window && s.window > 0 {
		parts := map[string]uint64{}
		for _, t := range s.threads {
			parts["thread:"+t.name] = mix(t.hash, uint64(t.kind), 0)
		}
		var cs, os, ns uint64
		for _, c := range s.chans {
			ch := uint64(17)
			for _, v := range c.queued {
				ch = mix(ch, v, 1)
			}
			cs += ch
		}
		for _, v := range s.objHash {
			os += v
		}
		for k, v := range s.nameHash {
			parts["name:"+k] = v
			ns += v
		}
		parts["chans"], parts["mutexes"] = cs, os
		for _, x := range s.timers {
			parts[fmt.Sprintf("timer%d", x.id)] = x.hash
		}
		DebugComponents(parts)
	}
	var h uint64
	for _, t := range s.threads {
		d := uint64(t.kind) << 1
		if t.done {
			d |= 1
		}
		h = mix(h, t.hash, uint64(t.id)<<8|d)
	}
	// objects are combined commutatively (their addresses differ between executions)
	var sum uint64
	for _, c := range s.chans {
		ch := uint64(17)
		for _, v := range c.queued {
			ch = mix(ch, v, 1)
		}
		if c.closed {
			ch = mix(ch, 2, 2)
		}
		sum += mix(ch, 3, 3)
	}
	for _, v := range s.objHash {
		sum += mix(v, 4, 4)
	}
	if EnvHash != nil {
		sum += mix(EnvHash(), 10, 10)
	}
	if DataHash != nil {
		sum += mix(DataHash(), 8, 8)
		for _, holder := range s.held {
			sum += mix(uint64(holder), 9, 9)
		}
	}
	for _, v := range s.nameHash {
		sum += mix(v, 5, 5)
	}
	for _, x := range s.timers {
		a := uint64(0)
		if x.armed {
			a = 1
		}
		h = mix(h, x.hash, a<<8|uint64(x.id))
	}
	return mix(h, sum, 6)
}

// ---- the scheduler ----

//go:norace
func (s *Sched) enabled(t *thread) bool {
	if t.done {
		return false
	}
	switch t.kind {
	case OpStart, OpYield, OpClose:
		return true
	case OpLock:
		_, held := s.held[t.obj]
		return !held
	case OpSend:
		if s.closed[t.obj] {
			return true // will panic, as in a real execution
		}
		return t.ch.Len() < t.ch.Cap()
	case OpRecv:
		return t.ch.Len() > 0 || s.closed[t.obj]
	case OpSelect:
		return t.hasDef || len(s.ready(t)) > 0
	case OpWait, OpOnce, OpBlock:
		return t.cond()
	}
	return false
}

//go:norace
func (s *Sched) ready(t *thread) []int {
	var r []int
	for i, c := range t.cases {
		id, v := chanID(c.Ch)
		if c.Send {
			if s.closed[id] || v.Len() < v.Cap() {
				r = append(r, i)
			}
		} else if v.Len() > 0 || s.closed[id] {
			r = append(r, i)
		}
	}
	return r
}

//go:norace
func (s *Sched) describe(t *thread) string {
	what := opNames[t.kind]
	switch t.kind {
	case OpBlock, OpWait, OpOnce, OpYield:
		what += ":" + t.what
	case OpSelect:
		what += fmt.Sprintf("(%d cases)", len(t.cases))
	}
	return fmt.Sprintf("%s@%s", t.name, what)
}

//go:norace
func (s *Sched) choose(kind string, n, nthreads int, runningEnabled bool, opts []string) int {
	c := 0
	if len(s.choices) < len(s.prefix) {
		c = s.prefix[len(s.choices)]
		if c >= n {
			panic(fmt.Sprintf("verifrt: NONDETERMINISM: replayed choice %d out of range %d at point %d (%s %v)", c, n, len(s.choices), kind, opts))
		}
	}
	s.choices = append(s.choices, c)
	if HashStates {
		s.hashes = append(s.hashes, s.stateHash())
	} else {
		s.hashes = append(s.hashes, 0)
	}
	s.points = append(s.points, Point{Kind: kind, N: n, NThreads: nthreads, Chosen: c, RunningEnabled: runningEnabled, Options: opts})
	return c
}

// Run executes prog as thread 0 under the scheduler, replaying prefix and then always
// taking choice 0 (continue the running thread if it is enabled, else the lowest id).
//
//go:norace
func Run(prefix []int, maxSteps int, prog func()) Outcome {
	s := &Sched{yield: make(chan *thread), held: map[uintptr]int{}, closed: map[uintptr]bool{}, prefix: prefix, MaxSteps: maxSteps, now: time.Unix(1000000, 0),
		objHash: map[uintptr]uint64{}, nameHash: map[string]uint64{}, chans: map[uintptr]*chanState{}}
	if maxSteps == 0 {
		s.MaxSteps = 20000
	}
	active = s
	GoNamed("main", false, prog)
	var out Outcome
	var running *thread
	for {
		if s.panicMsg != "" {
			out.Panic = s.panicMsg
			break
		}
		essential := false
		for _, t := range s.threads {
			if !t.daemon && !t.done {
				essential = true
			}
		}
		if !essential {
			break
		}
		if s.OnStep != nil {
			s.OnStep()
		}
		// enabled threads in canonical order: the running thread first, then ascending ids
		var en []*thread
		runEn := running != nil && s.enabled(running)
		if runEn {
			en = append(en, running)
		}
		for _, t := range s.threads {
			if t != running && s.enabled(t) {
				en = append(en, t)
			}
		}
		// armed timers are pseudo-threads that can fire at any time; they come last
		var tm []*Timer
		for _, x := range s.timers {
			if x.armed {
				tm = append(tm, x)
			}
		}
		if len(en) == 0 && len(tm) == 0 {
			out.Deadlock = true
			for _, t := range s.threads {
				if !t.done {
					out.AllBlocked = append(out.AllBlocked, s.describe(t))
					if !t.daemon {
						out.Blocked = append(out.Blocked, s.describe(t))
					}
				}
			}
			break
		}
		s.steps++
		if s.steps > s.MaxSteps {
			out.StepLimit = true
			break
		}
		n := len(en) + len(tm)
		pick := 0
		if n > 1 {
			opts := make([]string, 0, n)
			for _, t := range en {
				opts = append(opts, s.describe(t))
			}
			for _, x := range tm {
				opts = append(opts, fmt.Sprintf("timer%d-fires", x.id))
			}
			pick = s.choose("thread", n, len(en), runEn, opts)
		}
		if pick >= len(en) {
			// fire a timer: the clock jumps to its deadline
			x := tm[pick-len(en)]
			x.hash = mix(x.hash, 31, uint64(x.id))
			id, _ := chanID(x.C)
			if c := s.chanOf(id); len(c.queued) == 0 {
				c.queued = append(c.queued, x.hash)
			}
			x.armed = false
			if x.when.After(s.now) {
				s.now = x.when
			}
			s.now = s.now.Add(time.Microsecond)
			select {
			case x.C <- s.now:
			default:
			}
			continue
		}
		t := en[pick]
		if t.kind == OpSelect {
			r := s.ready(t)
			switch {
			case len(r) == 0:
				t.granted = -1
			case len(r) == 1:
				t.granted = r[0]
			default:
				opts := make([]string, len(r))
				for i, c := range r {
					opts[i] = fmt.Sprintf("%s:case%d", t.name, c)
				}
				t.granted = r[s.choose("case", len(r), len(r), false, opts)]
			}
		}
		switch t.kind {
		case OpLock:
			s.touchObj(t, t.obj, uint64(t.kind))
		case OpSend:
			s.doSend(t, t.obj)
		case OpRecv:
			s.doRecv(t, t.obj)
		case OpClose:
			s.doClose(t, t.obj)
		case OpSelect:
			if t.granted >= 0 {
				id, _ := chanID(t.cases[t.granted].Ch)
				t.hash = mix(t.hash, 46, uint64(t.granted))
				if t.cases[t.granted].Send {
					s.doSend(t, id)
				} else {
					s.doRecv(t, id)
				}
			} else {
				t.hash = mix(t.hash, 47, 0) // default arm: nothing was ready
			}
		case OpWait, OpOnce, OpBlock, OpYield:
			s.touchName(t, t.what, uint64(t.kind))
		case OpStart:
			t.hash = mix(t.hash, uint64(t.id), 7)
		}
		running = t
		s.cur = t
		raceDisable()
		t.wake <- struct{}{}
		<-s.yield
		raceEnable()
		if t.expect != "" {
			if !t.done && !s.enabled(t) {
				s.panicMsg = "expectation failed: " + t.expect + " (" + s.describe(t) + " has to wait)"
			}
			t.expect = ""
		}
	}
	out.Points, out.Choices, out.Steps, out.Window, out.Hashes = s.points, s.choices, s.steps, s.window, s.hashes
	// tear down: release every parked goroutine; hooks become no-ops
	s.aborting = true
	raceDisable()
	for _, t := range s.threads {
		if !t.done {
			select {
			case t.wake <- struct{}{}:
			case <-time.After(2 * time.Second):
				out.Leaked++
			}
		}
	}
	done := make(chan struct{})
	go func() { s.exited.Wait(); close(done) }()
	select {
	case <-done:
	case <-time.After(3 * time.Second):
		out.Leaked++
	}
	raceEnable()
	active = nil
	DataHash, EnvHash = nil, nil
	return out
}

// ---- explorer: preemption-bounded depth-first search over choice sequences ----

type Explorer struct {
	Bound     int // preemption bound
	MaxExec   int // cap on executions (0 = none); hitting it makes the result non-exhaustive
	MaxSteps  int
	Prog      func()                 // builds a fresh system and runs the scenario (thread 0)
	Check     func(o Outcome) string // oracle for one finished execution; "" = fine
	Stop      func() bool
	Execs     int
	Capped    bool
	Failures  []Failure
	MaxFail   int
	Distinct  map[string]int // distinct observed outcome signatures (vacuity guard)
	Signature func(o Outcome) string
	MaxDepth  int
	// Prune enables state-key pruning: a decision point whose (happens-before hash,
	// remaining budget) was already expanded is not expanded again. Off for race hunting.
	Prune bool
	// CaseCost is the deviation cost of taking a ready select arm other than the first one
	// in source order (0 = free, as Go's random choice suggests; 1 = counted against Bound).
	CaseCost int
	visited  map[uint64]int
	Pruned   int
	// LevelOrder explores the schedule tree breadth-first: first the canonical schedule, then
	// every schedule with exactly one departure from it (default choices afterwards), then
	// two departures, ... The set explored without a cap is the same as depth-first; under an
	// execution cap the explored part is "all single departures first", which is what reaches
	// every preemption window of the program once.
	LevelOrder bool
	queue      [][]int
}

type Failure struct {
	Msg     string
	Choices []int
	Trace   []string
}

//go:norace
func (e *Explorer) one(prefix []int) Outcome {
	o := Run(prefix, e.MaxSteps, e.Prog)
	e.Execs++
	if len(o.Points) > e.MaxDepth {
		e.MaxDepth = len(o.Points)
	}
	return o
}

//go:norace
func (e *Explorer) Explore() {
	if e.Distinct == nil {
		e.Distinct = map[string]int{}
	}
	if e.MaxFail == 0 {
		e.MaxFail = 3
	}
	if e.LevelOrder {
		e.queue = [][]int{nil}
		for len(e.queue) > 0 && !e.Capped && len(e.Failures) < e.MaxFail {
			pf := e.queue[0]
			e.queue = e.queue[1:]
			e.explore(pf)
		}
		e.queue = nil
		return
	}
	e.explore(nil)
}

//go:norace
func traceOf(o Outcome) []string {
	var tr []string
	for _, p := range o.Points {
		if p.Chosen < len(p.Options) {
			tr = append(tr, p.Options[p.Chosen])
		}
	}
	return tr
}

//go:norace
func (e *Explorer) explore(prefix []int) {
	if e.Capped || len(e.Failures) >= e.MaxFail {
		return
	}
	if (e.MaxExec > 0 && e.Execs >= e.MaxExec) || (e.Stop != nil && e.Stop()) {
		e.Capped = true
		return
	}
	o := e.one(prefix)
	if o.Panic != "" && len(o.Panic) > 13 && o.Panic[:13] == "verifrt: NOND" {
		panic(o.Panic)
	}
	if msg := e.Check(o); msg != "" {
		// determinism discipline: the same schedule must fail again
		o2 := Run(o.Choices, e.MaxSteps, e.Prog)
		if msg2 := e.Check(o2); msg2 == "" {
			panic(fmt.Sprintf("verifrt: NONDETERMINISM: schedule %v failed (%s) and then passed on replay", o.Choices, msg))
		}
		e.Failures = append(e.Failures, Failure{Msg: msg, Choices: append([]int(nil), o.Choices...), Trace: traceOf(o)})
		return
	}
	if e.Signature != nil {
		e.Distinct[e.Signature(o)]++
	}
	// cost of a deviation: switching away from a thread that could continue is a
	// preemption; letting a timer fire while some thread could run is a deviation too
	// (time passing "early"); everything else (who runs when the running thread blocks,
	// which ready select arm is taken) is free
	cost := func(p Point, c int) int {
		if c == 0 {
			return 0
		}
		if p.Kind == "case" {
			return e.CaseCost // taking a ready select arm other than the first in source order
		}
		if p.Kind != "thread" {
			return 0
		}
		if c >= p.NThreads {
			if p.NThreads > 0 {
				return 1
			}
			return 0
		}
		if p.RunningEnabled {
			return 1
		}
		return 0
	}
	pre := 0
	for i := 0; i < len(o.Points); i++ {
		p := o.Points[i]
		if e.Prune && i >= len(prefix) && i >= o.Window {
			if e.visited == nil {
				e.visited = map[uint64]int{}
			}
			// dominance: a state already expanded with at least as much remaining budget has
			// had every continuation explored that is allowed now
			rem := e.Bound - pre
			if had, ok := e.visited[o.Hashes[i]]; ok && had >= rem {
				e.Pruned++
				break
			}
			e.visited[o.Hashes[i]] = rem
		}
		if i >= len(prefix) && i >= o.Window {
			for alt := 1; alt < p.N; alt++ {
				if pre+cost(p, alt) > e.Bound {
					continue
				}
				np := append(append(make([]int, 0, i+1), o.Choices[:i]...), alt)
				if e.LevelOrder {
					e.queue = append(e.queue, np)
					continue
				}
				e.explore(np)
			}
		}
		if i >= o.Window {
			pre += cost(p, p.Chosen)
		}
	}
}

// Visited returns the number of distinct (state, budget) keys expanded.
func (e *Explorer) Visited() int { return len(e.visited) }

// Summary for evidence.
func (e *Explorer) DistinctKeys() []string {
	var k []string
	for s := range e.Distinct {
		k = append(k, s)
	}
	sort.Strings(k)
	return k
}
