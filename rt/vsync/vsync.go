// Package vsync replaces package sync inside instrumented copies of tcell's sources: each
// primitive announces the operation to the scheduler (verifrt) and then performs the real
// sync operation, so that the race detector sees the program's real synchronisation.
package vsync

import (
	"runtime"
	"sync"
	"unsafe"

	"github.com/gdamore/tcell/v2/verifrt"
)

type Locker = sync.Locker

type Mutex struct {
	mu sync.Mutex
}

//go:norace
func (m *Mutex) Lock() {
	if verifrt.Aborting() {
		// teardown: never block on a lock whose holder has already been released
		if !m.mu.TryLock() {
			runtime.Goexit()
		}
		return
	}
	verifrt.BeforeLock(uintptr(unsafe.Pointer(m)))
	m.mu.Lock()
}

//go:norace
func (m *Mutex) Unlock() {
	m.mu.Unlock()
	verifrt.AfterUnlock(uintptr(unsafe.Pointer(m)))
}

type WaitGroup struct {
	wg sync.WaitGroup
	mu sync.Mutex
	n  int
}

//go:norace
func (w *WaitGroup) Add(d int) {
	w.mu.Lock()
	w.n += d
	w.mu.Unlock()
	w.wg.Add(d)
}

//go:norace
func (w *WaitGroup) Done() { w.Add(-1) }

//go:norace
func (w *WaitGroup) count() int {
	w.mu.Lock()
	defer w.mu.Unlock()
	return w.n
}

//go:norace
func (w *WaitGroup) Wait() {
	if verifrt.Aborting() {
		return
	}
	verifrt.WaitPoint(verifrt.OpWait, "WaitGroup.Wait", func() bool { return w.count() <= 0 })
	w.wg.Wait()
}

type Once struct {
	mu      sync.Mutex
	done    bool
	running bool
}

// Do runs f once; concurrent callers wait until the first call has returned, as sync.Once does.
//
//go:norace
func (o *Once) Do(f func()) {
	verifrt.WaitPoint(verifrt.OpOnce, "Once.Do", func() bool {
		o.mu.Lock()
		defer o.mu.Unlock()
		return !o.running
	})
	o.mu.Lock()
	if o.done {
		o.mu.Unlock()
		return
	}
	o.running = true
	o.mu.Unlock()
	defer func() {
		o.mu.Lock()
		o.running, o.done = false, true
		o.mu.Unlock()
	}()
	f()
}
